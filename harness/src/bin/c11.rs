//! C11: splitter selection. Same case language as ocaml/c11/driver.ml.
//!   spl <k> <segment_size> <threads> <contigs>       contigs = numeric codes (0..15, 30) in hex, ',' between contigs
//!   pair <tag> <k> <segment_size> <t1> <t2> <contigs1> <contigs2>
//!   rns <virtual_begin> <values>     cand <k> <contigs>
//! `spl`: the reference is written as FASTA text (ref.fa: plain headers; pansn.fa: the reference as first sample
//! REF#1 followed by a second sample that repeats every reference contig), read back with the real reader
//! (GenomeIO), and the three variants are run: determine_splitters on the contigs read by GenomeIO inside a local
//! rayon pool of <threads> threads, determine_splitters_streaming(ref.fa),
//! determine_splitters_streaming_first_sample(pansn.fa).  Printed: the three sets of the in-memory variant in
//! increasing order, V=ok when the two other variants returned exactly the same three sets, and the segment
//! lengths of every reference contig cut by the real split_at_splitters_with_size with the returned splitters.
#[path = "../runner.rs"]
mod runner;
#[path = "../util.rs"]
mod util;
use ragc_core::kmer_extract::{remove_non_singletons, remove_non_singletons_with_duplicates};
use ragc_core::{
    determine_splitters, determine_splitters_streaming, determine_splitters_streaming_first_sample,
    find_candidate_kmers, find_candidate_kmers_multi, is_splitter, split_at_splitters_with_size, GenomeIO, CNV_NUM,
};
use std::collections::HashMap;
use std::io::{Read, Write};
use std::sync::{Arc, Mutex, OnceLock};
use util::*;

fn set_str(v: &[u64]) -> String {
    if v.is_empty() {
        "-".into()
    } else {
        v.iter().map(|x| format!("{:x}", x)).collect::<Vec<_>>().join(",")
    }
}

fn contigs_of(s: &str) -> Vec<Vec<u8>> {
    if s == "-" {
        vec![]
    } else {
        s.split(',').map(unhex).collect()
    }
}

fn letter(code: u8) -> Result<u8, String> {
    match code {
        0..=15 => Ok(CNV_NUM[code as usize]),
        30 => Ok(b'X'),
        _ => Err(format!("HARNESS-ERROR code {} has no FASTA letter", code)),
    }
}

fn fasta(contigs: &[Vec<u8>], prefix: &str, out: &mut Vec<u8>) -> Result<(), String> {
    for (i, c) in contigs.iter().enumerate() {
        out.extend_from_slice(format!(">{}ctg{}\n", prefix, i).as_bytes());
        // three layouts: 60 columns, 7 columns with CRLF, one line in lower case
        let (width, eol, lower): (usize, &[u8], bool) = match i % 3 {
            0 => (60, b"\n", false),
            1 => (7, b"\r\n", false),
            _ => (usize::MAX, b"\n", true),
        };
        let letters: Result<Vec<u8>, String> =
            c.iter().map(|&b| letter(b).map(|l| if lower { l.to_ascii_lowercase() } else { l })).collect();
        let letters = letters?;
        for chunk in letters.chunks(width.min(letters.len().max(1))) {
            out.extend_from_slice(chunk);
            out.extend_from_slice(eol);
        }
    }
    Ok(())
}

static DIR: OnceLock<tempfile::TempDir> = OnceLock::new();
type Sets = (Vec<u64>, Vec<u64>, Vec<u64>);
fn sorted<I: IntoIterator<Item = u64>>(s: I) -> Vec<u64> {
    let mut v: Vec<u64> = s.into_iter().collect();
    v.sort_unstable();
    v
}

fn answer(k: &str, seg: &str, threads: &str, cs: &str) -> String {
    let k: usize = k.parse().unwrap();
    let seg: usize = seg.parse().unwrap();
    let threads: usize = threads.parse().unwrap();
    let contigs = contigs_of(cs);
    if contigs.iter().any(|c| c.is_empty()) {
        return "HARNESS-ERROR empty contig cannot be written as a FASTA record".into();
    }
    // one scratch directory per process (the files are rewritten for every case), one rayon pool per thread count
    let dir = DIR.get_or_init(|| tempfile::tempdir_in("/dev/shm").or_else(|_| tempfile::tempdir()).expect("tempdir"));
    let refp = dir.path().join("ref.fa");
    let panp = dir.path().join("pansn.fa");
    let mut a = Vec::new();
    if let Err(e) = fasta(&contigs, "", &mut a) {
        return e;
    }
    std::fs::File::create(&refp).unwrap().write_all(&a).unwrap();
    let mut b = Vec::new();
    fasta(&contigs, "REF#1#", &mut b).unwrap();
    let mut again: Vec<Vec<u8>> = contigs.clone();
    again.reverse();
    fasta(&again, "ZZZ#1#", &mut b).unwrap();
    std::fs::File::create(&panp).unwrap().write_all(&b).unwrap();

    // the reference as the real reader sees it
    let mut read_back: Vec<Vec<u8>> = Vec::new();
    {
        let mut gio = GenomeIO::<Box<dyn Read>>::open(&refp).unwrap();
        while let Some((_name, contig)) = gio.read_contig_converted().unwrap() {
            read_back.push(contig);
        }
    }
    if read_back != contigs {
        return "HARNESS-ERROR the reader did not return the contigs of the case".into();
    }
    static POOLS: OnceLock<Mutex<HashMap<usize, Arc<rayon::ThreadPool>>>> = OnceLock::new();
    let pool = POOLS
        .get_or_init(|| Mutex::new(HashMap::new()))
        .lock()
        .unwrap_or_else(|e| e.into_inner())
        .entry(threads)
        .or_insert_with(|| Arc::new(rayon::ThreadPoolBuilder::new().num_threads(threads).build().unwrap()))
        .clone();
    let (s1, g1, d1) = pool.install(|| determine_splitters(&read_back, k, seg));
    let mem: Sets = (sorted(s1.iter().copied()), sorted(g1.iter().copied()), sorted(d1.iter().copied()));
    let mut verdict = String::from("ok");
    match determine_splitters_streaming(&refp, k, seg) {
        Ok((s, g, d)) => {
            let st: Sets = (sorted(s), sorted(g), sorted(d));
            if st != mem {
                verdict = format!("streaming-differs:S={}:G={}:D={}", set_str(&st.0), set_str(&st.1), set_str(&st.2));
            }
        }
        Err(e) => verdict = format!("streaming-error:{}", format!("{:#}", e).replace(char::is_whitespace, "_")),
    }
    match determine_splitters_streaming_first_sample(&panp, k, seg) {
        Ok((s, g, d)) => {
            let st: Sets = (sorted(s), sorted(g), sorted(d));
            if st != mem && verdict == "ok" {
                verdict = format!("first-sample-differs:S={}:G={}:D={}", set_str(&st.0), set_str(&st.1), set_str(&st.2));
            }
        }
        Err(e) => verdict = format!("first-sample-error:{}", format!("{:#}", e).replace(char::is_whitespace, "_")),
    }
    // is_splitter is the membership test
    if mem.0.iter().any(|&v| !is_splitter(v, &s1)) || mem.1.iter().any(|&v| is_splitter(v, &s1) != s1.contains(&v)) {
        verdict = "is_splitter-differs".into();
    }
    let lens: Vec<String> = read_back
        .iter()
        .map(|c| {
            split_at_splitters_with_size(c, &s1, k, seg)
                .iter()
                .map(|s| s.data.len().to_string())
                .collect::<Vec<_>>()
                .join(",")
        })
        .collect();
    format!(
        "S={} G={} D={} V={} L={}",
        set_str(&mem.0),
        set_str(&mem.1),
        set_str(&mem.2),
        verdict,
        if lens.is_empty() { "-".into() } else { lens.join(";") }
    )
}

pub fn run(t: &[&str]) -> String {
    match t {
        ["spl", k, seg, threads, cs] => answer(k, seg, threads, cs),
        ["pair", _tag, k, seg, t1, t2, cs1, cs2] => format!("{} | {}", answer(k, seg, t1, cs1), answer(k, seg, t2, cs2)),
        // a large reference under two thread counts (not run through the Coq model: see checks/c11.py big_case)
        ["big", k, seg, t1, t2, cs] => format!("{} | {}", answer(k, seg, t1, cs), answer(k, seg, t2, cs)),
        ["rns", vb, vals] => {
            let vb: usize = vb.parse().unwrap();
            let v: Vec<u64> =
                if *vals == "-" { vec![] } else { vals.split(',').map(|x| u64::from_str_radix(x, 16).unwrap()).collect() };
            let mut a = v.clone();
            let mut dups = vec![0xdeadu64];
            remove_non_singletons_with_duplicates(&mut a, &mut dups, vb);
            let mut b = v.clone();
            remove_non_singletons(&mut b, vb);
            if a != b {
                return "HARNESS-ERROR remove_non_singletons and ..._with_duplicates keep different elements".into();
            }
            format!("K={} D={}", set_str(&a), set_str(&dups))
        }
        ["cand", k, cs] => {
            let k: usize = k.parse().unwrap();
            let contigs = contigs_of(cs);
            let m = find_candidate_kmers_multi(&contigs, k);
            if contigs.len() == 1 {
                format!("M={} C={}", set_str(&m), set_str(&find_candidate_kmers(&contigs[0], k)))
            } else {
                format!("M={}", set_str(&m))
            }
        }
        _ => "HARNESS-ERROR bad case".into(),
    }
}

fn main() {
    // the splitter functions log with eprintln!: keep stderr out of the result stream
    unsafe {
        let fd = libc::open(b"/dev/null\0".as_ptr() as *const libc::c_char, libc::O_WRONLY);
        if fd >= 0 {
            libc::dup2(fd, 2);
        }
    }
    runner::main_loop(run);
    if let Some(d) = DIR.get() {
        let _ = std::fs::remove_dir_all(d.path());
    }
}
