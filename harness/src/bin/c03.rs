//! C03: sample / contig catalogue codec. Same case language as ocaml/c03/driver.ml (documented there).
//! The private (de)serialisers are reached through hook H4 (`CollectionV3::verif_*`, cfg ragc_verif);
//! the `coll` case goes through the public batch API and a real Archive file in a temp dir.
#[path = "../runner.rs"]
mod runner;
#[path = "../util.rs"]
mod util;
use ragc_common::{
    zigzag_decode, zigzag_decode_i64, zigzag_encode, zigzag_encode_i64, Archive, CollectionV3, CollectionVarInt,
    SegmentDesc,
};
use std::panic::{catch_unwind, AssertUnwindSafe};
use util::*;

/// the H4 wrappers in one place
mod h4 {
    use ragc_common::CollectionV3;
    pub fn ser_sample_names(c: &CollectionV3) -> Vec<u8> {
        c.verif_serialize_sample_names()
    }
    pub fn deser_sample_names(c: &mut CollectionV3, d: &[u8]) -> anyhow::Result<()> {
        c.verif_deserialize_sample_names(d)
    }
    pub fn ser_names(c: &CollectionV3, a: usize, b: usize) -> Vec<u8> {
        c.verif_serialize_contig_names(a, b)
    }
    pub fn deser_names(c: &mut CollectionV3, d: &[u8], i: usize) -> anyhow::Result<()> {
        c.verif_deserialize_contig_names(d, i)
    }
    pub fn ser_details(c: &mut CollectionV3, a: usize, b: usize) -> [Vec<u8>; 5] {
        c.verif_serialize_contig_details(a, b)
    }
    pub fn deser_details(c: &mut CollectionV3, v: &[Vec<u8>; 5], i: usize) -> anyhow::Result<()> {
        c.verif_deserialize_contig_details(v, i)
    }
    pub fn split_string(s: &str) -> Vec<String> {
        CollectionV3::verif_split_string(s)
    }
    pub fn encode_split(p: &[String], c: &[String]) -> Vec<u8> {
        CollectionV3::verif_encode_split(p, c)
    }
    pub fn samples_loaded(c: &CollectionV3) -> usize {
        c.verif_samples_loaded()
    }
}

struct Stop(String);
type R<T> = Result<T, Stop>;

fn guard<T>(f: impl FnOnce() -> anyhow::Result<T>) -> R<T> {
    match catch_unwind(AssertUnwindSafe(f)) {
        Ok(Ok(v)) => Ok(v),
        Ok(Err(_)) => Err(Stop("ERR".into())),
        Err(_) => Err(Stop("PANIC".into())),
    }
}
fn s_of(b: &[u8]) -> String {
    String::from_utf8(b.to_vec()).expect("HARNESS: case name is not UTF-8")
}
fn split_on(c: char, s: &str) -> Vec<&str> {
    if s.is_empty() { vec![] } else { s.split(c).collect() }
}
fn names_of_token(t: &str) -> Vec<Vec<Vec<u8>>> {
    if t == "~" {
        return vec![];
    }
    split_on('/', t).iter().map(|s| if *s == "_" { vec![] } else { split_on(',', s).iter().map(|h| unhex(h)).collect() }).collect()
}
fn token_of_names(t: &[Vec<Vec<u8>>]) -> String {
    if t.is_empty() {
        return "~".into();
    }
    t.iter()
        .map(|s| if s.is_empty() { "_".to_string() } else { s.iter().map(|n| hex(n)).collect::<Vec<_>>().join(",") })
        .collect::<Vec<_>>()
        .join("/")
}
fn seg_of_string(s: &str) -> SegmentDesc {
    let f: Vec<&str> = s.split(':').collect();
    SegmentDesc::new(f[0].parse().unwrap(), f[1].parse().unwrap(), f[2] == "1", f[3].parse().unwrap())
}
fn string_of_seg(s: &SegmentDesc) -> String {
    format!("{}:{}:{}:{}", s.group_id, s.in_group_id, b2s(s.is_rev_comp), s.raw_length)
}
fn string_of_contig(c: &[SegmentDesc]) -> String {
    if c.is_empty() { ".".into() } else { c.iter().map(string_of_seg).collect::<Vec<_>>().join(",") }
}
fn segs_of_token(t: &str) -> Vec<Vec<Vec<SegmentDesc>>> {
    if t == "~" {
        return vec![];
    }
    split_on('/', t)
        .iter()
        .map(|s| {
            if *s == "_" {
                vec![]
            } else {
                split_on('|', s).iter().map(|c| if *c == "." { vec![] } else { split_on(',', c).iter().map(|x| seg_of_string(x)).collect() }).collect()
            }
        })
        .collect()
}
fn token_of_segs(t: &[Vec<Vec<SegmentDesc>>]) -> String {
    if t.is_empty() {
        return "~".into();
    }
    t.iter()
        .map(|s| if s.is_empty() { "_".to_string() } else { s.iter().map(|c| string_of_contig(c)).collect::<Vec<_>>().join("|") })
        .collect::<Vec<_>>()
        .join("/")
}
fn sname_i(i: usize) -> String {
    format!("s{}", i)
}
fn cname_j(j: usize) -> String {
    format!("c{}", j)
}

/// a collection with the given samples and no contigs, made by deserialize_sample_names
fn fresh(ss: u32, k: u32, names: &[String]) -> R<CollectionV3> {
    let mut d = Vec::new();
    CollectionVarInt::encode(&mut d, names.len() as u32);
    for n in names {
        CollectionVarInt::encode_string(&mut d, n);
    }
    let mut c = CollectionV3::new();
    c.set_config(ss, k, None);
    guard(|| h4::deser_sample_names(&mut c, &d))?;
    Ok(c)
}
fn fresh_n(ss: u32, k: u32, n: usize) -> R<CollectionV3> {
    fresh(ss, k, &(0..n).map(sname_i).collect::<Vec<_>>())
}
fn dump_names(c: &CollectionV3) -> R<String> {
    let mut t = Vec::new();
    for nm in c.get_samples_list(false) {
        match guard(|| Ok(c.get_contig_list(&nm)))? {
            Some(l) => t.push(l.into_iter().map(|x| x.into_bytes()).collect::<Vec<_>>()),
            None => return Err(Stop("LOOKUP".into())),
        }
    }
    Ok(token_of_names(&t))
}
fn dump_segs(c: &CollectionV3) -> R<String> {
    let mut t = Vec::new();
    for nm in c.get_samples_list(false) {
        match guard(|| Ok(c.get_sample_desc(&nm)))? {
            Some(l) => t.push(l.into_iter().map(|x| x.1).collect::<Vec<_>>()),
            None => return Err(Stop("LOOKUP".into())),
        }
    }
    Ok(token_of_segs(&t))
}
fn dump_full(c: &CollectionV3) -> R<String> {
    let l = c.get_samples_list(false);
    if l.is_empty() {
        return Ok("~".into());
    }
    let mut out = Vec::new();
    for nm in l {
        let d = guard(|| Ok(c.get_sample_desc(&nm)))?;
        let body = match d {
            None => "?".to_string(),
            Some(cs) if cs.is_empty() => "_".to_string(),
            Some(cs) => cs.iter().map(|(cn, sg)| format!("{}@{}", hex(cn.as_bytes()), string_of_contig(sg))).collect::<Vec<_>>().join("|"),
        };
        out.push(format!("{}={}", hex(nm.as_bytes()), body));
    }
    Ok(out.join("/"))
}
fn flat<T>(r: R<T>, f: impl FnOnce(T) -> String) -> String {
    match r {
        Ok(v) => f(v),
        Err(Stop(m)) => m,
    }
}
fn cvout(b: &[u8]) -> String {
    let mut p = b;
    match catch_unwind(AssertUnwindSafe(|| {
        let r = CollectionVarInt::decode(&mut p);
        (r.ok(), p.len())
    })) {
        Ok((Some(v), rest)) => format!("OK {:x} {}", v, rest),
        Ok((None, _)) => "ERR".into(),
        Err(_) => "PANIC".into(),
    }
}
fn pz<T>(f: impl FnOnce() -> T) -> Option<T> {
    catch_unwind(AssertUnwindSafe(f)).ok()
}
fn shex(v: i64) -> String {
    if v < 0 { format!("-{:x}", v.unsigned_abs()) } else { format!("{:x}", v) }
}
fn parse_shex(s: &str) -> i64 {
    if let Some(m) = s.strip_prefix('-') {
        (u64::from_str_radix(m, 16).unwrap() as i64).wrapping_neg()
    } else {
        u64::from_str_radix(s, 16).unwrap() as i64
    }
}
fn u64h(s: &str) -> u64 {
    u64::from_str_radix(s, 16).unwrap()
}

fn names_case(t: &str) -> R<String> {
    let t = names_of_token(t);
    let n = t.len();
    let mut c = fresh_n(0, 0, n)?;
    for (i, s) in t.iter().enumerate() {
        for nm in s {
            let (sn, cn) = (sname_i(i), s_of(nm));
            guard(|| c.register_sample_contig(&sn, &cn))?;
        }
    }
    let ser = guard(|| Ok(h4::ser_names(&c, 0, n)))?;
    let tail = (|| -> R<String> {
        let mut c2 = fresh_n(0, 0, n)?;
        guard(|| h4::deser_names(&mut c2, &ser, 0))?;
        // no_samples_in_last_batch is private: it is the count the stream starts with
        let mut p = &ser[..];
        let cnt = CollectionVarInt::decode(&mut p).unwrap();
        Ok(format!("OK {} {}", cnt, dump_names(&c2)?))
    })();
    Ok(format!("{} {}", hex(&ser), flat(tail, |s| s)))
}

fn details_case(ss: u32, k: u32, t: &str) -> R<String> {
    let t = segs_of_token(t);
    let n = t.len();
    let mk = || -> R<CollectionV3> {
        let mut c = fresh_n(ss, k, n)?;
        for (i, s) in t.iter().enumerate() {
            for j in 0..s.len() {
                guard(|| c.register_sample_contig(&sname_i(i), &cname_j(j)))?;
            }
        }
        Ok(c)
    };
    let mut c = mk()?;
    for (i, s) in t.iter().enumerate() {
        for (j, ct) in s.iter().enumerate() {
            for (p, sg) in ct.iter().enumerate() {
                guard(|| c.add_segment_placed(&sname_i(i), &cname_j(j), p, sg.group_id, sg.in_group_id, sg.is_rev_comp, sg.raw_length))?;
            }
        }
    }
    let ser = guard(|| Ok(h4::ser_details(&mut c, 0, n)))?;
    let tail = (|| -> R<String> {
        let mut c2 = mk()?;
        guard(|| h4::deser_details(&mut c2, &ser, 0))?;
        Ok(format!("OK {}", dump_segs(&c2)?))
    })();
    Ok(format!("{} {}", ser.iter().map(|s| hex(s)).collect::<Vec<_>>().join(" "), flat(tail, |s| s)))
}

fn coll_case(ss: u32, k: u32, bs: usize, ops: &[&str]) -> String {
    let dir = tempfile::tempdir().expect("tempdir");
    let path = dir.path().join("a.agc");
    let mut arch = Archive::new_writer();
    arch.open(&path).expect("open writer");
    let mut c = CollectionV3::new();
    c.set_config(ss, k, None);
    c.prepare_for_compression(&mut arch).expect("prepare");
    let mut res = String::new();
    for op in ops {
        let f: Vec<&str> = op.split(':').collect();
        let r = match f[0] {
            "r" => {
                let (s, ct) = (s_of(&unhex(f[1])), s_of(&unhex(f[2])));
                match guard(|| c.register_sample_contig(&s, &ct)) {
                    Ok(true) => "T",
                    Ok(false) => "F",
                    Err(Stop(m)) => if m == "ERR" { "E" } else { "P" },
                }
            }
            "s" => {
                let (s, ct) = (s_of(&unhex(f[1])), s_of(&unhex(f[2])));
                match guard(|| c.add_segment_placed(&s, &ct, f[3].parse().unwrap(), f[4].parse().unwrap(), f[5].parse().unwrap(), f[6] == "1", f[7].parse().unwrap())) {
                    Ok(()) => "k",
                    Err(Stop(m)) => if m == "ERR" { "E" } else { "P" },
                }
            }
            _ => panic!("HARNESS: bad op"),
        };
        res.push_str(r);
    }
    let before = flat(dump_full(&c), |s| s);
    let n = c.get_no_samples();
    // the writer's loop of agc_compressor.rs (PACK_CARDINALITY = bs)
    let stored = guard(|| {
        c.store_batch_sample_names(&mut arch)?;
        let mut i = 0;
        while i < n {
            let e = (i + bs).min(n);
            c.store_contig_batch(&mut arch, i, e)?;
            i = e;
        }
        arch.flush_buffers()?;
        arch.close()?;
        Ok(())
    });
    let after = match stored {
        Err(Stop(m)) => format!("STORE-{}", m),
        Ok(()) => {
            let cleared = c.get_samples_list(false).iter().all(|s| c.get_no_contigs(s) == Some(0));
            let mut rd = Archive::new_reader();
            rd.open(&path).expect("open reader");
            let mut c2 = CollectionV3::new();
            c2.set_config(ss, k, None);
            c2.prepare_for_decompression(&rd).expect("prepare_for_decompression");
            let nb = c2.get_no_contig_batches(&rd).unwrap();
            let loaded = guard(|| {
                c2.load_batch_sample_names(&mut rd)?;
                for b in 0..nb {
                    c2.load_contig_batch(&mut rd, b)?;
                }
                Ok(())
            });
            let tail = match loaded {
                Err(Stop(m)) => format!("LOAD-{}", m),
                Ok(()) => {
                    let first = format!("OK {} {}", h4::samples_loaded(&c2), flat(dump_full(&c2), |s| s));
                    // load history: the reader loads a batch again whenever a lookup misses (Decompressor's
                    // unknown-sample path); a second load of every batch into the SAME collection must leave the
                    // catalogue as it was (the model's load is a function of the stream bytes).  Batches are loaded
                    // in the order 0..n, as load_contig_batch's cumulative counter requires and every caller does.
                    let again = guard(|| {
                        for b in 0..nb {
                            c2.load_contig_batch(&mut rd, b)?;
                        }
                        Ok(())
                    });
                    let second = match again {
                        Err(Stop(m)) => format!("RELOAD-{}", m),
                        Ok(()) => format!("OK {} {}", h4::samples_loaded(&c2), flat(dump_full(&c2), |s| s)),
                    };
                    if second == first { first } else { format!("{} RELOAD-DIFFERS {}", first, second) }
                }
            };
            format!("{} {} {}", if cleared { "C" } else { "N" }, nb, tail)
        }
    };
    format!("{} {} {}", if res.is_empty() { "-".to_string() } else { res }, before, after)
}

pub fn run(t: &[&str]) -> String {
    match t {
        ["cv", nh, rest] => {
            let mut e = Vec::new();
            CollectionVarInt::encode(&mut e, u32::from_str_radix(nh, 16).unwrap());
            let mut all = e.clone();
            all.extend_from_slice(&unhex(rest));
            format!("{} {}", hex(&e), cvout(&all))
        }
        ["cvd", h] => cvout(&unhex(h)),
        ["zz", x, p] => {
            let (x, p) = (u64h(x), u64h(p));
            match pz(|| zigzag_encode(x, p)) {
                Some(v) => format!("{:x} {}", v, pz(|| zigzag_decode(v, p)).map_or("PANIC".into(), |d| format!("{:x}", d))),
                None => "PANIC".into(),
            }
        }
        ["zzd", v, p] => {
            let (v, p) = (u64h(v), u64h(p));
            pz(|| zigzag_decode(v, p)).map_or("PANIC".into(), |d| format!("{:x}", d))
        }
        ["zi", x] => {
            let x = parse_shex(x);
            match pz(|| zigzag_encode_i64(x)) {
                Some(v) => format!("{:x} {}", v, pz(|| zigzag_decode_i64(v)).map_or("PANIC".into(), shex)),
                None => "PANIC".into(),
            }
        }
        ["zid", v] => {
            let v = u64h(v);
            pz(|| zigzag_decode_i64(v)).map_or("PANIC".into(), shex)
        }
        ["utf8", h] => {
            let b = unhex(h);
            format!("{} {}", b2s(String::from_utf8(b.clone()).is_ok()), hex(String::from_utf8_lossy(&b).as_bytes()))
        }
        ["split", h] => h4::split_string(&s_of(&unhex(h))).iter().map(|f| hex(f.as_bytes())).collect::<Vec<_>>().join(","),
        ["esplit", p, c] => {
            let p = h4::split_string(&s_of(&unhex(p)));
            let c = h4::split_string(&s_of(&unhex(c)));
            if p.len() != c.len() { "NE".into() } else { hex(&h4::encode_split(&p, &c)) }
        }
        ["names", t] => flat(names_case(t), |s| s),
        ["dnames", n, isamp, h] => flat(
            (|| -> R<String> {
                let mut c = fresh_n(0, 0, n.parse().unwrap())?;
                let d = unhex(h);
                guard(|| h4::deser_names(&mut c, &d, isamp.parse().unwrap()))?;
                let mut p = &d[..];
                let cnt = CollectionVarInt::decode(&mut p).unwrap();
                Ok(format!("OK {} {}", cnt, dump_names(&c)?))
            })(),
            |s| s,
        ),
        ["snames", t] => flat(
            (|| -> R<String> {
                let names: Vec<String> = if *t == "~" { vec![] } else { split_on(',', t).iter().map(|h| s_of(&unhex(h))).collect() };
                let mut c = CollectionV3::new();
                for nm in &names {
                    guard(|| c.register_sample_contig(nm, "c"))?;
                }
                let ser = h4::ser_sample_names(&c);
                let tail = (|| -> R<String> {
                    let mut c2 = CollectionV3::new();
                    guard(|| h4::deser_sample_names(&mut c2, &ser))?;
                    Ok(format!("OK {}", c2.get_samples_list(false).iter().map(|n| hex(n.as_bytes())).collect::<Vec<_>>().join(",")))
                })();
                Ok(format!("{} {}", hex(&ser), flat(tail, |s| s)))
            })(),
            |s| s,
        ),
        ["dsnames", h] => flat(
            (|| -> R<String> {
                let mut c = CollectionV3::new();
                let d = unhex(h);
                guard(|| h4::deser_sample_names(&mut c, &d))?;
                let l = c.get_samples_list(false);
                let mut look = String::new();
                for (i, nm) in l.iter().enumerate() {
                    let fresh = guard(|| c.register_sample_contig(nm, &format!("k{}", i)))?;
                    look.push_str(if fresh { "T" } else { "F" });
                }
                let ls = if l.is_empty() { "~".to_string() } else { l.iter().map(|n| hex(n.as_bytes())).collect::<Vec<_>>().join(",") };
                Ok(format!("OK {} {} {}", ls, look, dump_names(&c)?))
            })(),
            |s| s,
        ),
        ["details", ss, k, t] => flat(details_case(ss.parse().unwrap(), k.parse().unwrap(), t), |s| s),
        ["ddetails", ss, k, structure, isamp, h0, h1, h2, h3, h4] => flat(
            (|| -> R<String> {
                let counts: Vec<usize> = if *structure == "~" { vec![] } else { split_on(',', structure).iter().map(|x| x.parse().unwrap()).collect() };
                let mut c = fresh_n(ss.parse().unwrap(), k.parse().unwrap(), counts.len())?;
                for (i, cnt) in counts.iter().enumerate() {
                    for j in 0..*cnt {
                        guard(|| c.register_sample_contig(&sname_i(i), &cname_j(j)))?;
                    }
                }
                let v = [unhex(h0), unhex(h1), unhex(h2), unhex(h3), unhex(h4)];
                guard(|| h4::deser_details(&mut c, &v, isamp.parse().unwrap()))?;
                Ok(format!("OK {}", dump_segs(&c)?))
            })(),
            |s| s,
        ),
        ["coll", ss, k, bs, ops @ ..] => coll_case(ss.parse().unwrap(), k.parse().unwrap(), bs.parse().unwrap(), ops),
        _ => "HARNESS-ERROR bad case".into(),
    }
}

fn main() {
    runner::main_loop(run);
}
