//! C14O: second stage of opening an archive - ragc_core::Decompressor::open on prefixes of real archives and on
//! crafted complete archives.  Case language (the model side, ocaml/c14o/driver.ml, gets the same line with the
//! implementation's ` FILE .. ZT ..` tail appended by checks/c14o.py:model_cases and ignores what it cannot use):
//!   pre <fs> <from> <to> <hexfile>     every prefix length n in from..to-1 of the file: one token per prefix
//!   prec <fs> <from> <to> <hexfile>    the same for a container-level file that is not a valid ragc archive
//!   craft <fs> <variant> <paramshex> <payloadhex> <delta>
//!                                      a complete archive built with ragc_common::Archive (writer):
//!                                      streams/parts according to <variant> (see `craft`), the collection-samples
//!                                      part = zstd::encode_all(payload) with metadata = len(payload) + delta
//!   file <fs> <hexfile>                one arbitrary file
//!   mk <seed> <nsamples> <ncontigs> <len> <k> <segsize>   (implementation only) create a real ragc archive and
//!                                      print its bytes as hex
//! token of one file: one letter = where Decompressor::open stopped
//!   A Archive::open failed          B no params stream          C params stream has != 1 part
//!   D io error reading a part       F params shorter than 12    G/H/I collection-samples/-contigs/-details missing
//!   J collection-samples has no part  K zstd::decode_all failed  L decoded length != metadata
//!   M sample table: varint cut short  N string without NUL       U string not UTF-8
//!   V sample table: 5-byte count exceeds u32 (since /repo 4d083e0; before: dev panic / release wrap)
//!   P panic (caught)                ? an error message this harness does not know
//!   O:<k>:<min_match_len>:<name hex>,<name hex>..   a handle; what list_samples() and the pub fields show
//! after the tokens: ` ck=<0|1>` (1 = this binary traps on integer overflow: the dev profile), ` m=<largest single
//! allocation request inside Decompressor::open>`, ` FILE <hex>` (craft only) and ` ZT {<frame hex>=<decoded hex>}`:
//! for every file on which ragc_common::Archive::open succeeds, the first part of its collection-samples stream
//! (when there is one) run through zstd::decode_all; frames that zstd refuses are not listed.
#[path = "../runner.rs"]
mod runner;
#[path = "../util.rs"]
mod util;
use ragc_common::Archive;
use ragc_core::{Decompressor, DecompressorConfig, StreamingQueueCompressor, StreamingQueueConfig};
use std::alloc::{GlobalAlloc, Layout, System};
use std::collections::BTreeMap;
use std::panic;
use std::sync::atomic::{AtomicBool, AtomicUsize, Ordering};
use util::*;

struct Counting;
static TRACK: AtomicBool = AtomicBool::new(false);
static MAXREQ: AtomicUsize = AtomicUsize::new(0);
unsafe impl GlobalAlloc for Counting {
    unsafe fn alloc(&self, l: Layout) -> *mut u8 {
        if TRACK.load(Ordering::Relaxed) {
            MAXREQ.fetch_max(l.size(), Ordering::Relaxed);
        }
        System.alloc(l)
    }
    unsafe fn alloc_zeroed(&self, l: Layout) -> *mut u8 {
        if TRACK.load(Ordering::Relaxed) {
            MAXREQ.fetch_max(l.size(), Ordering::Relaxed);
        }
        System.alloc_zeroed(l)
    }
    unsafe fn realloc(&self, p: *mut u8, l: Layout, n: usize) -> *mut u8 {
        if TRACK.load(Ordering::Relaxed) {
            MAXREQ.fetch_max(n, Ordering::Relaxed);
        }
        System.realloc(p, l, n)
    }
    unsafe fn dealloc(&self, p: *mut u8, l: Layout) {
        System.dealloc(p, l)
    }
}
#[global_allocator]
static A: Counting = Counting;

static LIMITED: AtomicBool = AtomicBool::new(false);
fn limit_memory() {
    if !LIMITED.swap(true, Ordering::SeqCst) {
        let lim = libc::rlimit { rlim_cur: 400 << 20, rlim_max: 400 << 20 };
        unsafe {
            libc::setrlimit(libc::RLIMIT_AS, &lim);
        }
    }
}

fn dir_for(fs: &str) -> Option<String> {
    let d = match fs {
        "ext4" => format!("/verif/.cache/tmp/c14o-{}", std::process::id()),
        "shm" => format!("/dev/shm/verif-c14o-{}", std::process::id()),
        _ => return None,
    };
    std::fs::create_dir_all(&d).ok()?;
    Some(d)
}

/// does this binary trap on integer overflow (the dev profile)?
fn overflow_checked() -> bool {
    panic::catch_unwind(|| {
        let x: u32 = std::hint::black_box(u32::MAX);
        std::hint::black_box(x + std::hint::black_box(1u32))
    })
    .is_err()
}

fn code_of(msg: &str) -> char {
    // outermost context first (anyhow's {:#} prints the chain "outer: inner")
    if msg.starts_with("Failed to open archive for reading") {
        'A'
    } else if msg.contains("params stream not found in archive") {
        'B'
    } else if msg.contains("Expected 1 part in params stream") {
        'C'
    } else if msg.contains("params stream too short") {
        'F'
    } else if msg.contains("collection-samples stream not found in archive") {
        'G'
    } else if msg.contains("collection-contigs stream not found in archive") {
        'H'
    } else if msg.contains("collection-details stream not found in archive") {
        'I'
    } else if msg.contains("No sample names batch found") {
        'J'
    } else if msg.starts_with("Failed to decompress sample names") {
        'K'
    } else if msg.contains("Decompressed size mismatch") {
        'L'
    } else if msg.contains("Unexpected end of data while decoding") {
        'M'
    } else if msg.contains("Invalid 5-byte varint") {
        'V'
    } else if msg.contains("Null terminator not found in string") {
        'N'
    } else if msg.contains("Invalid UTF-8 in string") {
        'U'
    } else if msg.contains("failed to fill whole buffer") || msg.contains("Invalid argument") || msg.contains("os error") {
        'D'
    } else {
        '?'
    }
}

/// token of one file
fn classify(path: &str) -> String {
    let p = path.to_string();
    TRACK.store(true, Ordering::SeqCst);
    let r = panic::catch_unwind(move || {
        let r = Decompressor::open(&p, DecompressorConfig { verbosity: 0 });
        TRACK.store(false, Ordering::SeqCst);
        match r {
            Ok(d) => {
                let names: Vec<String> = d.list_samples().iter().map(|s| hex(s.as_bytes())).collect();
                format!("O:{}:{}:{}", d.kmer_length, d.min_match_len, if names.is_empty() { "".to_string() } else { names.join(",") })
            }
            Err(e) => {
                let m = format!("{:#}", e);
                let c = code_of(&m);
                if c == '?' {
                    format!("?[{}]", m.replace(' ', "_"))
                } else {
                    c.to_string()
                }
            }
        }
    });
    TRACK.store(false, Ordering::SeqCst);
    match r {
        Ok(s) => s,
        Err(_) => "P".into(),
    }
}

/// the zstd oracle's table entry for this file: first part of collection-samples, if Archive::open gets that far
fn frame_of(path: &str, zt: &mut BTreeMap<Vec<u8>, Vec<u8>>) {
    let p = path.to_string();
    let r = panic::catch_unwind(move || -> Option<Vec<u8>> {
        let mut a = Archive::new_reader();
        a.open(&p).ok()?;
        let id = a.get_stream_id("collection-samples")?;
        let (data, _) = a.get_part(id).ok()??;
        Some(data)
    });
    if let Ok(Some(frame)) = r {
        if !zt.contains_key(&frame) {
            if let Ok(dec) = zstd::decode_all(&frame[..]) {
                zt.insert(frame, dec);
            }
        }
    }
}

fn zt_string(zt: &BTreeMap<Vec<u8>, Vec<u8>>) -> String {
    let mut s = String::from(" ZT");
    for (k, v) in zt {
        s.push(' ');
        s.push_str(&hex(k));
        s.push('=');
        s.push_str(&hex(v));
    }
    s
}

fn lcg(x: &mut u32) -> u32 {
    *x = x.wrapping_mul(1103515245).wrapping_add(12345) & 0x7fff_ffff;
    *x >> 16
}

/// variant: decimal digits  <streams mask 0..15><nparams 0..2><samples part kind 0..4><order 0..1><dup 0..1>
///   streams mask: bit0 params, bit1 collection-samples, bit2 collection-contigs, bit3 collection-details present
///   nparams: how many parts the params stream gets (each = the params bytes; 0 = none)
///   samples part kind: 0 = zstd::encode_all(payload), 1 = the payload itself (raw, usually not a frame),
///                      2 = an empty part, 3 = no part, 4 = two parts (frame, then garbage)
///   order: 0 = writer's order (collection streams, file_type_info, params), 1 = params first
///   dup: 1 = a second, empty stream named "params" is NOT possible through register_stream (idempotent), so dup
///        registers an extra stream "paramsx" and "collection-sample" (near misses)
fn craft(path: &str, variant: &str, params: &[u8], payload: &[u8], delta: i64) -> anyhow::Result<()> {
    let f: Vec<&str> = variant.split('.').collect();
    let mask: u32 = f[0].parse()?;
    let nparams: u32 = f[1].parse()?;
    let kind: u32 = f[2].parse()?;
    let order: u32 = f[3].parse()?;
    let dup: u32 = f[4].parse()?;
    let mut a = Archive::new_writer();
    a.open(path)?;
    let mut names: Vec<&str> = Vec::new();
    if order == 1 && mask & 1 != 0 {
        names.push("params");
    }
    if mask & 2 != 0 {
        names.push("collection-samples");
    }
    if mask & 4 != 0 {
        names.push("collection-contigs");
    }
    if mask & 8 != 0 {
        names.push("collection-details");
    }
    names.push("file_type_info");
    if order == 0 && mask & 1 != 0 {
        names.push("params");
    }
    if dup == 1 {
        names.push("paramsx");
        names.push("collection-sample");
    }
    for n in &names {
        a.register_stream(n);
    }
    if let Some(id) = a.get_stream_id("params") {
        for _ in 0..nparams {
            a.add_part(id, params, 0)?;
        }
    }
    if let Some(id) = a.get_stream_id("collection-samples") {
        let meta = (payload.len() as i64 + delta) as u64;
        match kind {
            0 => a.add_part(id, &zstd::encode_all(payload, 3)?, meta)?,
            1 => a.add_part(id, payload, meta)?,
            2 => a.add_part(id, &[], meta)?,
            3 => {}
            _ => {
                a.add_part(id, &zstd::encode_all(payload, 3)?, meta)?;
                a.add_part(id, b"garbage", 7)?;
            }
        }
    }
    if let Some(id) = a.get_stream_id("file_type_info") {
        a.add_part(id, b"producer\0ragc\0", 2)?;
    }
    a.close()?;
    Ok(())
}

pub fn run(t: &[&str]) -> String {
    match t {
        ["file", fs, bytes] => {
            let Some(d) = dir_for(fs) else { return "HARNESS-ERROR bad fs".into() };
            limit_memory();
            let path = format!("{}/f.agc", d);
            std::fs::write(&path, unhex(bytes)).unwrap();
            MAXREQ.store(0, Ordering::SeqCst);
            let c = classify(&path);
            let m = MAXREQ.load(Ordering::SeqCst);
            let mut zt = BTreeMap::new();
            frame_of(&path, &mut zt);
            let _ = std::fs::remove_file(&path);
            let _ = std::fs::remove_dir(&d);
            format!("{} ck={} m={}{}", c, b2s(overflow_checked()), m, zt_string(&zt))
        }
        ["pre" | "prec", fs, from, to, bytes] => {
            let Some(d) = dir_for(fs) else { return "HARNESS-ERROR bad fs".into() };
            limit_memory();
            let b = unhex(bytes);
            let (from, to): (usize, usize) = (from.parse().unwrap(), to.parse().unwrap());
            let path = format!("{}/p.agc", d);
            MAXREQ.store(0, Ordering::SeqCst);
            let mut out: Vec<String> = Vec::new();
            let mut zt = BTreeMap::new();
            for n in from..to.min(b.len() + 1) {
                std::fs::write(&path, &b[..n]).unwrap();
                out.push(classify(&path));
                frame_of(&path, &mut zt);
            }
            let _ = std::fs::remove_file(&path);
            let _ = std::fs::remove_dir(&d);
            format!("{} ck={} m={}{}", out.join(" "), b2s(overflow_checked()), MAXREQ.load(Ordering::SeqCst), zt_string(&zt))
        }
        ["craft", fs, variant, params, payload, delta] => {
            let Some(d) = dir_for(fs) else { return "HARNESS-ERROR bad fs".into() };
            limit_memory();
            let path = format!("{}/c.agc", d);
            if let Err(e) = craft(&path, variant, &unhex(params), &unhex(payload), delta.parse().unwrap()) {
                return format!("HARNESS-ERROR craft failed: {}", e);
            }
            let bytes = std::fs::read(&path).unwrap();
            MAXREQ.store(0, Ordering::SeqCst);
            let c = classify(&path);
            let m = MAXREQ.load(Ordering::SeqCst);
            let mut zt = BTreeMap::new();
            frame_of(&path, &mut zt);
            let _ = std::fs::remove_file(&path);
            let _ = std::fs::remove_dir(&d);
            format!("{} ck={} m={} FILE {}{}", c, b2s(overflow_checked()), m, hex(&bytes), zt_string(&zt))
        }
        ["mk", seed, nsamples, ncontigs, len, k, segsize] => {
            let mut x: u32 = seed.parse().unwrap();
            let (ns, nc, len): (usize, usize, usize) =
                (nsamples.parse().unwrap(), ncontigs.parse().unwrap(), len.parse().unwrap());
            let d = format!("/dev/shm/verif-c14omk-{}-{}", std::process::id(), seed);
            std::fs::create_dir_all(&d).unwrap();
            let path = format!("{}/a.agc", d);
            let config = StreamingQueueConfig {
                k: k.parse().unwrap(),
                segment_size: segsize.parse().unwrap(),
                queue_capacity: 10 * 1024 * 1024,
                num_threads: 1,
                verbosity: 0,
                ..Default::default()
            };
            let r = (|| -> anyhow::Result<()> {
                let mut c = StreamingQueueCompressor::new(&path, config)?;
                let base: Vec<Vec<u8>> =
                    (0..nc).map(|_| (0..len).map(|_| (lcg(&mut x) & 3) as u8).collect()).collect();
                for s in 0..ns {
                    for (ci, b) in base.iter().enumerate() {
                        let mut v = b.clone();
                        if s > 0 {
                            for _ in 0..(1 + len / 100) {
                                let p = (lcg(&mut x) as usize) % len.max(1);
                                if p < v.len() {
                                    v[p] = (lcg(&mut x) & 3) as u8;
                                }
                            }
                        }
                        c.push(format!("s{}", s), format!("c{}", ci), v)?;
                    }
                }
                c.finalize()
            })();
            let out = match r {
                Ok(()) => hex(&std::fs::read(&path).unwrap()),
                Err(e) => format!("HARNESS-ERROR mk failed: {}", e),
            };
            let _ = std::fs::remove_dir_all(&d);
            out
        }
        _ => "HARNESS-ERROR bad case".into(),
    }
}

fn main() {
    runner::main_loop(run);
}
