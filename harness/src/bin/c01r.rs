//! C01R group registry (implementation side): which group id a stored segment goes to.
//! case:  reg <dir> <params k,s,m,pack,threads,qcap,ff>
//!   <dir> is a case directory of lib/gen_samples.py.  The real archive is created through the library API exactly
//!   as ragc-cli drives it (harness/src/mk.rs) with the hook log on; printed are
//!     k=<k>                      from the archive
//!     spl=<hex u64,..|->         the splitter set the compressor was given (same calls as mk.rs), sorted
//!     R=<round/round/..>         per sync round (ROUND event of classify_raw_segments_at_barrier) its contigs as
//!                                <sample hex>:<contig hex>, in the order of the event (sorted by the hook)
//!     G=<g:kind,..>              the segment streams of the archive directory in registration order: every name
//!                                x..d / x..r is matched against stream_delta_name / stream_ref_name of a group id
//!     D=<entry;entry;..>         the full descriptor table in catalogue order:
//!                                <sample hex>:<contig hex>:<part index>:<group>:<in-group id>:<rc>:<raw length>
//! line:  OK k=.. spl=.. R=.. G=.. D=..
//! case:  spl <dir> <params>   prints only the splitter set: OK <hex,..|->
#[path = "../mk.rs"]
mod mk;
#[path = "../runner.rs"]
mod runner;
#[path = "../util.rs"]
mod util;
use ragc_core::verif_hooks as vh;
use ragc_core::{Decompressor, DecompressorConfig};
use util::*;

fn splitters_of(inputs: &[std::path::PathBuf], p: &mk::Params) -> anyhow::Result<Vec<u64>> {
    let set = if inputs.len() == 1 {
        ragc_core::determine_splitters_streaming_first_sample(&inputs[0], p.k, p.segment_size)?.0
    } else {
        ragc_core::determine_splitters_streaming(&inputs[0], p.k, p.segment_size)?.0
    };
    let mut v: Vec<u64> = set.into_iter().collect();
    v.sort_unstable();
    Ok(v)
}

fn rd_varint(b: &[u8], p: &mut usize) -> Option<u64> {
    let n = *b.get(*p)? as usize;
    *p += 1;
    let mut v = 0u64;
    for _ in 0..n {
        v = (v << 8) + *b.get(*p)? as u64;
        *p += 1;
    }
    Some(v)
}

/// stream names of the archive directory in registration order (own footer parser, as harness/src/bin/c04.rs)
fn stream_names(bytes: &[u8]) -> Option<Vec<(String, usize)>> {
    if bytes.len() < 8 {
        return None;
    }
    let fs = u64::from_le_bytes(bytes[bytes.len() - 8..].try_into().ok()?) as usize;
    let start = bytes.len().checked_sub(8)?.checked_sub(fs)?;
    let f = &bytes[start..bytes.len() - 8];
    let mut p = 0;
    let ns = rd_varint(f, &mut p)? as usize;
    let mut out = Vec::new();
    for _ in 0..ns {
        let mut name = String::new();
        while *f.get(p)? != 0 {
            name.push(f[p] as char);
            p += 1;
        }
        p += 1;
        let np = rd_varint(f, &mut p)? as usize;
        let _raw = rd_varint(f, &mut p)?;
        for _ in 0..np {
            let _off = rd_varint(f, &mut p)?;
            let _sz = rd_varint(f, &mut p)?;
        }
        out.push((name, np));
    }
    Some(out)
}

fn table(path: &str) -> anyhow::Result<(u32, Vec<String>, u32)> {
    let mut d = Decompressor::open(path, DecompressorConfig { verbosity: 0 })?;
    let mut out = Vec::new();
    let mut maxg = 0u32;
    for s in d.list_samples() {
        for name in d.list_contigs(&s)? {
            for (pi, desc) in d.get_contig_segments_desc(&s, &name)?.iter().enumerate() {
                maxg = maxg.max(desc.group_id);
                out.push(format!(
                    "{}:{}:{}:{}:{}:{}:{}",
                    hex(s.as_bytes()),
                    hex(name.as_bytes()),
                    pi,
                    desc.group_id,
                    desc.in_group_id,
                    b2s(desc.is_rev_comp),
                    desc.raw_length
                ));
            }
        }
    }
    Ok((d.kmer_length, out, maxg))
}

fn run(t: &[&str]) -> String {
    match t {
        // only the splitter set (sorted): the generator aims palindromic k-mer pairs at splitter windows
        ["spl", dir, params] => {
            let p = mk::Params::parse(params);
            match splitters_of(&mk::case_inputs(dir), &p) {
                Ok(v) if v.is_empty() => "OK -".into(),
                Ok(v) => format!("OK {}", v.iter().map(|x| format!("{:x}", x)).collect::<Vec<_>>().join(",")),
                Err(e) => format!("SPLITTERS-ERR {}", format!("{:#}", e).replace('\n', " ")),
            }
        }
        ["reg", dir, params] => {
            let p = mk::Params::parse(params);
            let out = format!("{}/out_c01r.agc", dir);
            let _ = std::fs::remove_file(&out);
            let inputs = mk::case_inputs(dir);
            let spl = match splitters_of(&inputs, &p) {
                Ok(v) => v,
                Err(e) => return format!("SPLITTERS-ERR {}", format!("{:#}", e).replace('\n', " ")),
            };
            let _ = vh::take_log();
            vh::set_scheduler(0);
            vh::enable_log(true);
            let r = mk::create(&out, &inputs, &p);
            vh::enable_log(false);
            let log = vh::take_log();
            if let Err(e) = r {
                return format!("CREATE-ERR {}", format!("{:#}", e).replace('\n', " "));
            }
            let mut rounds: Vec<String> = Vec::new();
            for e in &log {
                if let Some(body) = e.strip_prefix("ROUND") {
                    let body = body.strip_prefix(' ').unwrap_or(body);
                    let mut items: Vec<String> = Vec::new();
                    for item in body.split('\u{1}') {
                        if item.is_empty() {
                            continue;
                        }
                        let mut nm = item.splitn(2, '\t');
                        let s = nm.next().unwrap_or("");
                        let c = nm.next().unwrap_or("");
                        items.push(format!("{}:{}", hex(s.as_bytes()), hex(c.as_bytes())));
                    }
                    if !items.is_empty() {
                        rounds.push(items.join(","));
                    }
                }
            }
            let (k, descs, maxg) = match table(&out) {
                Ok(x) => x,
                Err(e) => return format!("READ-ERR {}", format!("{:#}", e).replace('\n', " ")),
            };
            let bytes = match std::fs::read(&out) {
                Ok(b) => b,
                Err(e) => return format!("READ-ERR {}", e),
            };
            let names = match stream_names(&bytes) {
                Some(n) => n,
                None => return "READ-ERR bad footer".into(),
            };
            let ver = ragc_common::AGC_FILE_MAJOR * 1000 + ragc_common::AGC_FILE_MINOR;
            let mut by_name: std::collections::HashMap<String, String> = std::collections::HashMap::new();
            // group ids that can have a stream: everything up to the largest id plus the number of segment streams
            let lim = maxg as usize + names.len() + 32;
            for g in 0..lim as u32 {
                by_name.insert(ragc_common::stream_delta_name(ver, g), format!("{}:d", g));
                by_name.insert(ragc_common::stream_ref_name(ver, g), format!("{}:r", g));
            }
            let mut gs: Vec<String> = Vec::new();
            for (n, np) in &names {
                if n.starts_with('x') {
                    match by_name.get(n) {
                        Some(x) => gs.push(format!("{}:{}", x, np)),
                        None => gs.push(format!("?{}:{}", n, np)),
                    }
                }
            }
            let _ = std::fs::remove_file(&out);
            let join = |v: &Vec<String>, sep: &str| if v.is_empty() { "-".to_string() } else { v.join(sep) };
            format!(
                "OK k={} spl={} R={} G={} D={}",
                k,
                if spl.is_empty() { "-".to_string() } else { spl.iter().map(|x| format!("{:x}", x)).collect::<Vec<_>>().join(",") },
                join(&rounds, "/"),
                join(&gs, ","),
                join(&descs, ";")
            )
        }
        _ => "HARNESS-ERROR bad case".into(),
    }
}

fn main() {
    if std::env::var("VERIF_PANIC_VERBOSE").is_err() {
        unsafe {
            let fd = libc::open(b"/dev/null\0".as_ptr() as *const libc::c_char, libc::O_WRONLY);
            if fd >= 0 {
                libc::dup2(fd, 2);
            }
        }
    }
    runner::main_loop(run);
}
