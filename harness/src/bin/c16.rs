//! C16 / C19: FASTA input path. Same case language as ocaml/c16/driver.ml (c19.rs includes this file).
//!   parse / wr / fname / rd / pr / stream run the library (GenomeIO, GenomeWriter, MultiFileIterator);
//!   cli / shas / pairv run the real `ragc` binary ($RAGC_CLI, default /verif/.cache/target-cli-rel/release/ragc).
#[path = "../runner.rs"]
mod runner;
#[path = "../util.rs"]
mod util;
use ragc_core::contig_iterator::ContigIterator;
use ragc_core::{GenomeIO, GenomeWriter, MultiFileIterator};
use sha2::{Digest, Sha256};
use std::io::Write;
use std::path::{Path, PathBuf};
use std::process::{Command, Stdio};
use util::*;

fn show_recs(r: Result<Vec<(Vec<u8>, Vec<u8>)>, String>) -> String {
    match r {
        Err(_) => "ERR".into(),
        Ok(v) if v.is_empty() => "OK -".into(),
        Ok(v) => format!("OK {}", v.iter().map(|(i, c)| format!("{}:{}", hex(i), hex(c))).collect::<Vec<_>>().join(",")),
    }
}

fn read_all<R: std::io::Read>(mut g: GenomeIO<R>) -> Result<Vec<(Vec<u8>, Vec<u8>)>, String> {
    let mut out = vec![];
    loop {
        match g.read_contig_converted() {
            Ok(Some((id, c))) => out.push((id.into_bytes(), c)),
            Ok(None) => return Ok(out),
            Err(e) => return Err(e.to_string()),
        }
    }
}

fn tmpdir() -> tempfile::TempDir {
    let base = Path::new("/verif/.cache/tmp");
    if base.is_dir() {
        tempfile::Builder::new().prefix("fa-").tempdir_in(base).unwrap()
    } else {
        tempfile::Builder::new().prefix("fa-").tempdir().unwrap()
    }
}

fn gz(data: &[u8]) -> Vec<u8> {
    let mut e = flate2::write::GzEncoder::new(Vec::new(), flate2::Compression::default());
    e.write_all(data).unwrap();
    e.finish().unwrap()
}

/// name=file[=plain] -> (name, bytes to put on disk)
fn file_tok(t: &str) -> (String, Vec<u8>) {
    let f: Vec<&str> = t.split('=').collect();
    (String::from_utf8(unhex(f[0])).unwrap(), unhex(f[1]))
}

fn write_files(dir: &Path, toks: &[&str]) -> Vec<PathBuf> {
    std::fs::create_dir_all(dir).unwrap();
    toks.iter()
        .map(|t| {
            let (n, b) = file_tok(t);
            let p = dir.join(n);
            std::fs::write(&p, b).unwrap();
            p
        })
        .collect()
}

fn stream_file(p: &Path) -> Result<Vec<(String, String, Vec<u8>)>, String> {
    let mut it = MultiFileIterator::new(vec![p.to_path_buf()]).map_err(|e| e.to_string())?;
    let mut out = vec![];
    while let Some((s, n, c)) = it.next_contig().map_err(|e| e.to_string())? {
        if !c.is_empty() {
            out.push((s, n, c));
        }
    }
    Ok(out)
}

fn render(w: usize, eol: &[u8], mask: &str, recs: &[(Vec<u8>, Vec<u8>)]) -> Vec<u8> {
    let mut out = vec![];
    for (n, s) in recs {
        out.push(b'>');
        out.extend_from_slice(n);
        out.extend_from_slice(eol);
        let cased: Vec<u8> = s
            .iter()
            .enumerate()
            .map(|(i, &c)| {
                let lower = match mask {
                    "u" => false,
                    "l" => true,
                    _ => i % 3 != 0,
                };
                if lower { c.to_ascii_lowercase() } else { c.to_ascii_uppercase() }
            })
            .collect();
        for ch in cased.chunks(w) {
            out.extend_from_slice(ch);
            out.extend_from_slice(eol);
        }
    }
    out
}

// ------------------------------------------------------------------------------------------ real CLI
fn cli_path() -> String {
    std::env::var("RAGC_CLI").unwrap_or_else(|_| "/verif/.cache/target-cli-rel/release/ragc".into())
}

/// (exit code or -1 for signal / -2 for timeout, stdout)
fn run_cli(args: &[&std::ffi::OsStr]) -> (i32, Vec<u8>) {
    // glibc malloc tunables for the child only: in this VM a page fault costs ~80 us and `ragc create` spends
    // 10-30 s memset-ing fresh zstd level-19 contexts; huge pages / no mmap per allocation make it ~0.3 s.
    // They change how malloc obtains pages, not what the program computes (archives are byte-identical).
    let mut cmd = Command::new(cli_path());
    if std::env::var("RAGC_CLI_NO_TUNABLES").is_err() {
        cmd.env("GLIBC_TUNABLES", "glibc.malloc.hugetlb=1:glibc.malloc.mmap_threshold=4294967296:glibc.malloc.trim_threshold=4294967296");
    }
    let mut child = cmd
        .args(args)
        .stdin(Stdio::null())
        .stdout(Stdio::piped())
        .stderr(Stdio::null())
        .spawn()
        .expect("spawn ragc");
    let mut so = child.stdout.take().unwrap();
    let reader = std::thread::spawn(move || {
        let mut b = vec![];
        let _ = std::io::Read::read_to_end(&mut so, &mut b);
        b
    });
    let t0 = std::time::Instant::now();
    let code = loop {
        match child.try_wait().unwrap() {
            Some(st) => break st.code().unwrap_or(-1),
            None => {
                if t0.elapsed().as_secs() > 120 {
                    let _ = child.kill();
                    let _ = child.wait();
                    break -2;
                }
                std::thread::sleep(std::time::Duration::from_millis(2));
            }
        }
    };
    (code, reader.join().unwrap())
}

fn os(s: &str) -> &std::ffi::OsStr {
    std::ffi::OsStr::new(s)
}

/// params "k,s,m,t"
fn create(params: &str, agc: &Path, files: &[PathBuf]) -> i32 {
    let p: Vec<&str> = params.split(',').collect();
    let mut a: Vec<&std::ffi::OsStr> = vec![os("create"), os("-o"), agc.as_os_str(), os("-k"), os(p[0]), os("-s"), os(p[1]),
        os("-m"), os(p[2]), os("-t"), os(p[3]), os("-v"), os("0")];
    for f in files {
        a.push(f.as_os_str());
    }
    run_cli(&a).0
}

/// listset, then listctg + getset for every listed sample
fn view(agc: &Path) -> String {
    let (rc, out) = run_cli(&[os("listset"), agc.as_os_str()]);
    if rc != 0 {
        return format!("LISTSET-FAIL exit={}", rc);
    }
    let mut samples: Vec<Vec<u8>> = out.split(|&b| b == b'\n').map(|s| s.to_vec()).collect();
    if samples.last().map(|s| s.is_empty()).unwrap_or(false) {
        samples.pop();
    }
    if samples.is_empty() {
        return "OK -".into();
    }
    let mut parts = vec![];
    for s in &samples {
        let sname = String::from_utf8_lossy(s).to_string();
        let (rc, lc) = run_cli(&[os("listctg"), agc.as_os_str(), os("--"), os(&sname)]);
        if rc != 0 {
            return format!("LISTCTG-FAIL {} exit={}", hex(s), rc);
        }
        let mut listed: Vec<Vec<u8>> = vec![];
        for l in lc.split(|&b| b == b'\n') {
            if l.is_empty() {
                continue;
            }
            let mut pre = s.clone();
            pre.push(b'\t');
            if !l.starts_with(&pre) {
                return format!("LISTCTG-FORMAT {}", hex(l));
            }
            listed.push(l[pre.len()..].to_vec());
        }
        let (rc, fa) = run_cli(&[os("getset"), agc.as_os_str(), os("--"), os(&sname)]);
        if rc != 0 {
            return format!("EXTRACT-FAIL {} exit={}", hex(s), rc);
        }
        // the FASTA written by getset: '>' name, then lines of exactly 80 letters, the last one 1..80
        let mut contigs: Vec<(Vec<u8>, Vec<u8>)> = vec![];
        let mut last_len = 80usize;
        let mut lines: Vec<&[u8]> = fa.split(|&b| b == b'\n').collect();
        if fa.ends_with(b"\n") {
            lines.pop();
        } else if !fa.is_empty() {
            return format!("BADWRAP {} no final newline", hex(s));
        }
        for l in lines {
            if l.first() == Some(&b'>') {
                contigs.push((l[1..].to_vec(), vec![]));
                last_len = 80;
            } else {
                if contigs.is_empty() || last_len != 80 || l.is_empty() || l.len() > 80 {
                    return format!("BADWRAP {}", hex(s));
                }
                last_len = l.len();
                contigs.last_mut().unwrap().1.extend_from_slice(l);
            }
        }
        let names: Vec<Vec<u8>> = contigs.iter().map(|c| c.0.clone()).collect();
        if names != listed {
            return format!("LISTCTG-MISMATCH {}", hex(s));
        }
        parts.push(format!("{}={}", hex(s), contigs.iter().map(|(n, l)| format!("{}:{}", hex(n), hex(l))).collect::<Vec<_>>().join(",")));
    }
    format!("OK {}", parts.join(";"))
}

fn create_and_view(params: &str, dir: &Path, toks: &[&str]) -> (String, Option<String>) {
    let files = write_files(dir, toks);
    let agc = dir.join("out.agc");
    let rc = create(params, &agc, &files);
    if rc != 0 {
        return (if rc == 1 { "FAIL".into() } else { format!("FAIL-{}", rc) }, None);
    }
    let sha = match std::fs::read(&agc) {
        Ok(b) => format!("{:x}", Sha256::digest(&b)),
        Err(_) => return ("NO-ARCHIVE".into(), None),
    };
    (view(&agc), Some(sha))
}

pub fn run(t: &[&str]) -> String {
    match t {
        ["parse", x] => show_recs(read_all(GenomeIO::new(std::io::Cursor::new(unhex(x))))),
        ["wr", id, l] => {
            let id = String::from_utf8(unhex(id)).unwrap();
            let mut buf = Vec::new();
            {
                let mut w2 = GenomeWriter::new(&mut buf);
                w2.save_contig_directly(&id, &unhex(l), 0).unwrap();
            }
            hex(&buf)
        }
        ["fname", n] => {
            let d = tmpdir();
            let name = String::from_utf8(unhex(n)).unwrap();
            let p = d.path().join(&name);
            std::fs::write(&p, b">x\nA\n").unwrap();
            match stream_file(&p) {
                Ok(v) if v.len() == 1 => format!("plain {}", hex(v[0].0.as_bytes())),
                _ => {
                    std::fs::write(&p, gz(b">x\nA\n")).unwrap();
                    match stream_file(&p) {
                        Ok(v) if v.len() == 1 => format!("gz {}", hex(v[0].0.as_bytes())),
                        Ok(_) => "UNREADABLE".into(),
                        Err(e) => format!("ERR {}", e.replace('\n', " ")),
                    }
                }
            }
        }
        ["rd", n, f, _plain] => {
            let d = tmpdir();
            let p = d.path().join(String::from_utf8(unhex(n)).unwrap());
            std::fs::write(&p, unhex(f)).unwrap();
            match GenomeIO::open(&p) {
                Ok(g) => show_recs(read_all(g)),
                Err(_) => "ERR".into(),
            }
        }
        ["pr", w, eol, m, rs] => {
            let recs: Vec<(Vec<u8>, Vec<u8>)> = if *rs == "-" { vec![] } else {
                rs.split(',').map(|r| { let f: Vec<&str> = r.split(':').collect(); (unhex(f[0]), unhex(f[1])) }).collect()
            };
            let eol: &[u8] = if *eol == "lf" { b"\n" } else { b"\r\n" };
            let text = render(w.parse().unwrap(), eol, m, &recs);
            show_recs(read_all(GenomeIO::new(std::io::Cursor::new(text))))
        }
        ["stream", files @ ..] => {
            let d = tmpdir();
            let paths = write_files(d.path(), files);
            let mut all = vec![];
            for p in &paths {
                match stream_file(p) {
                    Ok(v) => all.extend(v),
                    Err(_) => return "ERR".into(),
                }
            }
            if all.is_empty() { "OK -".into() } else {
                format!("OK {}", all.iter().map(|(s, n, c)| format!("{}:{}:{}", hex(s.as_bytes()), hex(n.as_bytes()), hex(c))).collect::<Vec<_>>().join(","))
            }
        }
        ["cli", params, files @ ..] => {
            let d = tmpdir();
            create_and_view(params, d.path(), files).0
        }
        ["shas", params, n, files @ ..] => {
            let n: usize = n.parse().unwrap();
            let d = tmpdir();
            let mut first_view = String::new();
            let mut shas: Vec<Option<String>> = vec![];
            for (i, g) in files.chunks(n).enumerate() {
                let sub = d.path().join(format!("g{}", i));
                if i == 0 {
                    let (v, s) = create_and_view(params, &sub, g);
                    first_view = v;
                    shas.push(s);
                } else {
                    let fs = write_files(&sub, g);
                    let agc = sub.join("out.agc");
                    let rc = create(params, &agc, &fs);
                    shas.push(if rc == 0 { std::fs::read(&agc).ok().map(|b| format!("{:x}", Sha256::digest(&b))) } else { None });
                }
            }
            if shas[0].is_none() {
                return first_view;
            }
            let bad: Vec<String> = shas.iter().enumerate().filter(|(_, s)| **s != shas[0]).map(|(i, s)| {
                format!("{}{}", i, if s.is_none() { "(create failed)" } else { "" }) }).collect();
            if bad.is_empty() { format!("{} same", first_view) } else { format!("{} diff:{}", first_view, bad.join(",")) }
        }
        ["pairv" | "pairn", params, n, files @ ..] => {
            let n: usize = n.parse().unwrap();
            let d = tmpdir();
            let a = create_and_view(params, &d.path().join("a"), &files[..n]).0;
            let b = create_and_view(params, &d.path().join("b"), &files[n..]).0;
            format!("{} | {}", a, b)
        }
        _ => "HARNESS-ERROR bad case".into(),
    }
}

#[allow(dead_code)]
fn main() {
    runner::main_loop(run);
}
