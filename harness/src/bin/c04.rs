//! C04 archive bytes depend only on inputs and parameters (implementation side).
//! case:  det <dir> <k,s,m,pack,ff> <t:seed:qcap,t:seed:qcap,...>
//!   <dir> is a case directory of lib/gen_samples.py (order.txt: one file = single-file PanSN mode, several =
//!   multi-file mode).  For every schedule (worker threads, perturbation seed (0 = natural), queue capacity in bytes)
//!   the real archive is created through the library API exactly as ragc-cli drives it (harness/src/mk.rs), with the
//!   hook log on.
//! line:  OK <mode> first=<n> in=<s.c.len;...> | <sched> <sha256> R=<round/round/...> O=<sid:n,sid:n,...> T=<trace> | ...
//!   in     the contigs in push order: rank of the sample name, rank of the contig name (byte order, as Rust's
//!          String Ord), number of symbols; first = number of contigs of the first file
//!   R      per sync round (ROUND event of classify_raw_segments_at_barrier) the input indices of its contigs
//!   O      the parts of the real file in offset order (own footer parser), runs of parts of one stream id
//!   T      the hook log, normalised: a<seq>c<input idx> | a<seq>p | a<seq>f  push accepted (contig / pack token /
//!          flush token), t<wid>.<seq> pull, s<wid> contig segmented and in the worker's raw buffer, r round
//!          classified, k<wid>.<idx> phase-3 claim, c close, n<wid> pull returned None
//!   a run that does not finish within the watchdog prints `<sched> HANG`, a failed create `<sched> ERR <msg>`
#[path = "../mk.rs"]
mod mk;
#[path = "../runner.rs"]
mod runner;
#[path = "../util.rs"]
mod util;
use ragc_core::contig_iterator::ContigIterator;
use ragc_core::verif_hooks as vh;
use ragc_core::MultiFileIterator;
use sha2::{Digest, Sha256};
use std::collections::{BTreeMap, BTreeSet, HashMap};
use std::path::PathBuf;
use std::sync::mpsc;
use std::time::Duration;
use util::*;

const WATCHDOG_S: u64 = 90;

struct Input {
    sample: String,
    contig: String,
    len: usize,
}

fn list_inputs(files: &[PathBuf]) -> anyhow::Result<(Vec<Input>, usize)> {
    let mut v = Vec::new();
    let mut first = 0;
    for (fi, f) in files.iter().enumerate() {
        let mut it = MultiFileIterator::new(vec![f.clone()])?;
        while let Some((s, c, seq)) = it.next_contig()? {
            if !seq.is_empty() {
                v.push(Input { sample: s, contig: c, len: seq.len() });
            }
        }
        if fi == 0 {
            first = v.len();
        }
    }
    Ok((v, first))
}

fn rd_varint(b: &[u8], p: &mut usize) -> Option<u64> {
    let n = *b.get(*p)? as usize;
    *p += 1;
    let mut v = 0u64;
    for _ in 0..n {
        v = (v << 8) + *b.get(*p)? as u64;
        *p += 1;
    }
    Some(v)
}

/// (stream id, stream name, part index, offset) of every part, from the footer (parsed here, not by ragc)
fn directory(bytes: &[u8]) -> Option<Vec<(usize, String, usize, u64)>> {
    if bytes.len() < 8 {
        return None;
    }
    let fs = u64::from_le_bytes(bytes[bytes.len() - 8..].try_into().ok()?) as usize;
    let start = bytes.len().checked_sub(8)?.checked_sub(fs)?;
    let f = &bytes[start..bytes.len() - 8];
    let mut p = 0;
    let ns = rd_varint(f, &mut p)? as usize;
    let mut out = Vec::new();
    for sid in 0..ns {
        let mut name = String::new();
        while *f.get(p)? != 0 {
            name.push(f[p] as char);
            p += 1;
        }
        p += 1;
        let np = rd_varint(f, &mut p)? as usize;
        let _raw = rd_varint(f, &mut p)?;
        for pi in 0..np {
            let off = rd_varint(f, &mut p)?;
            let _sz = rd_varint(f, &mut p)?;
            out.push((sid, name.clone(), pi, off));
        }
    }
    Some(out)
}

fn file_order(bytes: &[u8]) -> String {
    let Some(mut d) = directory(bytes) else {
        return "BAD-FOOTER".into();
    };
    d.sort_by_key(|x| x.3);
    // runs of consecutive parts of one stream; a run must start at the part index that follows the previous run
    let mut runs: Vec<(usize, usize, usize)> = Vec::new(); // (sid, first part, count)
    for (sid, _, pi, _) in d {
        match runs.last_mut() {
            Some((s, f, n)) if *s == sid && *f + *n == pi => *n += 1,
            _ => runs.push((sid, pi, 1)),
        }
    }
    runs.iter()
        .map(|(s, f, n)| if *f == 0 { format!("{}:{}", s, n) } else { format!("{}@{}:{}", s, f, n) })
        .collect::<Vec<_>>()
        .join(",")
}

fn normalise(log: &[String], inputs: &[Input]) -> (String, String) {
    let idx_of: HashMap<(String, String), usize> =
        inputs.iter().enumerate().map(|(i, x)| ((x.sample.clone(), x.contig.clone()), i)).collect();
    // pass 1: P events give the identity of the k-th accepted push (the producer is one thread)
    let mut kinds: Vec<String> = Vec::new(); // per queue seq: "c<idx>" / "p" / "f"
    let mut next_ctg = 0usize;
    for e in log {
        if e.starts_with("P CTG ") {
            kinds.push(format!("c{}", next_ctg));
            next_ctg += 1;
        } else if e == "P TOK pack" {
            kinds.push("p".into());
        } else if e.starts_with("P TOK ") {
            kinds.push("f".into());
        }
    }
    // pass 2: thread id of the queue events -> worker id, through the contig a thread pulled
    let mut tid_of_ctg: HashMap<usize, u64> = HashMap::new();
    let mut wid_of_tid: BTreeMap<u64, usize> = BTreeMap::new();
    let mut tids: BTreeSet<u64> = BTreeSet::new();
    let mut wids: BTreeSet<usize> = BTreeSet::new();
    for e in log {
        let t: Vec<&str> = e.splitn(4, ' ').collect();
        if t[0] == "T" && t.len() >= 3 {
            let tid: u64 = t[1].parse().unwrap_or(0);
            tids.insert(tid);
            let seq: usize = t[2].parse().unwrap_or(usize::MAX);
            if let Some(k) = kinds.get(seq) {
                if let Some(ci) = k.strip_prefix('c') {
                    tid_of_ctg.insert(ci.parse().unwrap(), tid);
                }
            }
        } else if t[0] == "N" && t.len() >= 2 {
            tids.insert(t[1].parse().unwrap_or(0));
        } else if t[0] == "W" && t.len() >= 3 {
            let wid: usize = t[1].parse().unwrap_or(0);
            wids.insert(wid);
            if t[2] == "CTG" && t.len() == 4 {
                let mut nm = t[3].splitn(2, '\t');
                let key = (nm.next().unwrap_or("").to_string(), nm.next().unwrap_or("").to_string());
                if let Some(ci) = idx_of.get(&key) {
                    if let Some(tid) = tid_of_ctg.get(ci) {
                        wid_of_tid.insert(*tid, wid);
                    }
                }
            }
        }
    }
    // threads that only ever pulled tokens are interchangeable: any bijection with the remaining worker ids
    let used: BTreeSet<usize> = wid_of_tid.values().cloned().collect();
    let mut free: Vec<usize> = wids.iter().filter(|w| !used.contains(w)).cloned().collect();
    free.reverse();
    for tid in &tids {
        if !wid_of_tid.contains_key(tid) {
            let w = free.pop().unwrap_or(999);
            wid_of_tid.insert(*tid, w);
        }
    }
    // pass 3: the trace
    let mut tr: Vec<String> = Vec::new();
    let mut rounds: Vec<String> = Vec::new();
    let mut nacc = 0usize;
    for e in log {
        let t: Vec<&str> = e.splitn(4, ' ').collect();
        match t[0] {
            "A" => {
                let k = kinds.get(nacc).cloned().unwrap_or_else(|| "?".into());
                tr.push(format!("a{}{}", nacc, k));
                nacc += 1;
            }
            "T" => {
                let tid: u64 = t[1].parse().unwrap_or(0);
                tr.push(format!("t{}.{}", wid_of_tid.get(&tid).cloned().unwrap_or(999), t[2]));
            }
            "N" => {
                let tid: u64 = t[1].parse().unwrap_or(0);
                tr.push(format!("n{}", wid_of_tid.get(&tid).cloned().unwrap_or(999)));
            }
            "C" => tr.push("c".into()),
            "W" if t.len() >= 3 && t[2] == "SEGMENTED" => tr.push(format!("s{}", t[1])),
            "W" if t.len() >= 4 && t[2] == "CLAIM" => tr.push(format!("k{}.{}", t[1], t[3])),
            "ROUND" => {
                let body = if e.len() > 6 { &e[6..] } else { "" };
                let mut ids: Vec<usize> = Vec::new();
                let mut unknown = false;
                for item in body.split('\u{1}') {
                    if item.is_empty() {
                        continue;
                    }
                    let mut nm = item.splitn(2, '\t');
                    let key = (nm.next().unwrap_or("").to_string(), nm.next().unwrap_or("").to_string());
                    match idx_of.get(&key) {
                        Some(i) => ids.push(*i),
                        None => unknown = true,
                    }
                }
                ids.sort();
                let mut s = ids.iter().map(|i| i.to_string()).collect::<Vec<_>>().join(".");
                if unknown {
                    s.push_str(".?");
                }
                if s.is_empty() {
                    s = "-".into();
                }
                rounds.push(s.clone());
                tr.push("r".to_string());
            }
            _ => {}
        }
    }
    (if rounds.is_empty() { "-".into() } else { rounds.join("/") }, tr.join(","))
}

fn one_run(dir: &str, files: &[PathBuf], inputs: &[Input], base: &[&str], sched: &str) -> String {
    let f: Vec<&str> = sched.split(':').collect();
    if f.len() != 3 {
        return format!("{} ERR bad schedule", sched);
    }
    let (threads, seed, qcap): (usize, u64, usize) = match (f[0].parse(), f[1].parse(), f[2].parse()) {
        (Ok(a), Ok(b), Ok(c)) => (a, b, c),
        _ => return format!("{} ERR bad schedule", sched),
    };
    let p = mk::Params {
        k: base[0].parse().unwrap(),
        segment_size: base[1].parse().unwrap(),
        min_match_len: base[2].parse().unwrap(),
        pack: base[3].parse().unwrap(),
        threads,
        queue_capacity: qcap,
        fallback_frac: base.get(4).map(|x| x.parse().unwrap()).unwrap_or(0.0),
    };
    let _ = dir;
    let out = format!("{}/c04_{}_{}.agc", std::env::temp_dir().display(), std::process::id(), sched.replace(':', "_"));
    let _ = std::fs::remove_file(&out);
    let _ = vh::take_log();
    vh::set_scheduler(seed);
    vh::enable_log(true);
    let (tx, rx) = mpsc::channel();
    let (out2, files2, p2) = (out.clone(), files.to_vec(), p.clone());
    std::thread::spawn(move || {
        vh::set_tid(0);
        let r = std::panic::catch_unwind(|| mk::create(&out2, &files2, &p2));
        let _ = tx.send(match r {
            Ok(Ok(())) => Ok(()),
            Ok(Err(e)) => Err(format!("{:#}", e)),
            Err(e) => Err(format!("PANIC {}", runner::panic_msg(&e))),
        });
    });
    let wd = std::env::var("VERIF_C04_WATCHDOG").ok().and_then(|x| x.parse().ok()).unwrap_or(WATCHDOG_S);
    let res = rx.recv_timeout(Duration::from_secs(wd));
    vh::enable_log(false);
    vh::set_scheduler(0);
    let log = vh::take_log();
    let line = match res {
        Err(_) => {
            // not C04's business (C05), but say where it stopped: the normalised trace of the stuck run
            let (rounds, trace) = normalise(&log, inputs);
            format!("{} HANG R={} T={}", sched, rounds, trace)
        }
        Ok(Err(e)) => format!("{} ERR {}", sched, e.replace(['\n', '|'], " ")),
        Ok(Ok(())) => match std::fs::read(&out) {
            Err(e) => format!("{} ERR cannot read the archive: {}", sched, e),
            Ok(bytes) => {
                let sha = hex(&Sha256::digest(&bytes));
                let (rounds, trace) = normalise(&log, inputs);
                format!("{} {} R={} O={} T={}", sched, sha, rounds, file_order(&bytes), trace)
            }
        },
    };
    let _ = std::fs::remove_file(&out);
    line
}

fn rank<'a>(names: impl Iterator<Item = &'a String>) -> HashMap<String, usize> {
    let set: BTreeSet<&String> = names.collect();
    set.into_iter().enumerate().map(|(i, s)| (s.clone(), i)).collect()
}

fn run(t: &[&str]) -> String {
    match t {
        ["det", dir, params, scheds] => {
            let files = mk::case_inputs(dir);
            let (inputs, first) = match list_inputs(&files) {
                Ok(x) => x,
                Err(e) => return format!("INPUT-ERR {:#}", e),
            };
            let srank = rank(inputs.iter().map(|x| &x.sample));
            let crank = rank(inputs.iter().map(|x| &x.contig));
            let ins: Vec<String> =
                inputs.iter().map(|x| format!("{}.{}.{}", srank[&x.sample], crank[&x.contig], x.len)).collect();
            let base: Vec<&str> = params.split(',').collect();
            if base.len() < 4 {
                return "HARNESS-ERROR bad params".into();
            }
            let mode = if files.len() == 1 { "single" } else { "multi" };
            let mut out = format!("OK {} first={} in={}", mode, first, if ins.is_empty() { "-".into() } else { ins.join(";") });
            for s in scheds.split(',') {
                out.push_str(" | ");
                out.push_str(&one_run(dir, &files, &inputs, &base, s));
            }
            out
        }
        _ => "HARNESS-ERROR bad case".into(),
    }
}

fn main() {
    // Allocator tuning (timing only): every zstd::encode_all of the catalogue writer allocates ~100 MB of fresh
    // tables; in this sandbox first-touch page faults make that cost 0.5-15 s per call.  Keeping freed memory in
    // the (single) heap makes all but the first archive of a process cheap.
    unsafe {
        let a = libc::mallopt(libc::M_MMAP_THRESHOLD, 1 << 30);
        let b = libc::mallopt(libc::M_TRIM_THRESHOLD, i32::MAX);
        let c = libc::mallopt(libc::M_ARENA_MAX, 1);
        if std::env::var("VERIF_C04_DEBUG").is_ok() {
            eprintln!("mallopt: mmap_threshold={} trim_threshold={} arena_max={}", a, b, c);
        }
    }
    runner::main_loop(run);
}
