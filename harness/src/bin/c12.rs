//! C12: tuple packing and segment/pack compression are lossless. Same case language as ocaml/c12/driver.ml.
//! zstd frames are never printed: only the marker, the pre-zstd payload (obtained by decoding the real frame
//! here with zstd::decode_all), round-trip flags through the real decompress_* functions, and whether the frame
//! equals what a FRESH compression context produces at the level named in the case (context-reuse independence).
#[path = "../runner.rs"]
mod runner;
#[path = "../util.rs"]
mod util;
use ragc_core::segment_compression::{
    compress_reference_segment, compress_segment, compress_segment_configured, compress_segment_plain,
    decompress_segment, decompress_segment_with_marker,
};
use ragc_core::tuple_packing::{bytes_to_tuples, tuples_to_bytes};
use ragc_core::zstd_pool::{compress_segment_pooled, decompress_segment_pooled};
use std::panic::catch_unwind;
use util::*;

/// ZSTD_compressCCtx on a context that has never been used (what zstd_pool does on first use of a thread)
fn fresh(data: &[u8], level: i32) -> Vec<u8> {
    let mut cctx = zstd::zstd_safe::CCtx::create();
    let mut out = vec![0u8; zstd::zstd_safe::compress_bound(data.len())];
    let n = cctx.compress(&mut out[..], data, level).expect("fresh zstd compress");
    out.truncate(n);
    out
}

/// outcome of a fallible, possibly panicking real-code call, in the model's vocabulary
fn outcome<F: FnOnce() -> anyhow::Result<Vec<u8>> + std::panic::UnwindSafe>(f: F) -> String {
    match catch_unwind(f) {
        Ok(Ok(v)) => hex(&v),
        Ok(Err(_)) => "ERR".into(),
        Err(_) => "PANIC".into(),
    }
}

fn rt(got: &str, want: &[u8]) -> String {
    if got == hex(want) { "1".into() } else { format!("0:{}", got) }
}

fn payload(frame: &[u8]) -> String {
    match zstd::decode_all(frame) {
        Ok(p) => hex(&p),
        Err(_) => "UNZSTD-ERR".into(),
    }
}

pub fn run(t: &[&str]) -> String {
    match t {
        // bytes_to_tuples, then tuples_to_bytes of the result
        ["pk", x] => {
            let x = unhex(x);
            let p = bytes_to_tuples(&x);
            let p2 = p.clone();
            let u = outcome(move || Ok(tuples_to_bytes(&p2)));
            format!("{} {}", hex(&p), u)
        }
        // tuples_to_bytes on an arbitrary (possibly malformed) tuple stream
        ["un", tp] => {
            let tp = unhex(tp);
            outcome(move || Ok(tuples_to_bytes(&tp)))
        }
        // compress_reference_segment; lt / lp = the levels the translator read for the tuple / plain branch
        ["ref", lt, lp, x] => {
            let (lt, lp): (i32, i32) = (lt.parse().unwrap(), lp.parse().unwrap());
            let x = unhex(x);
            let (frame, marker) = match compress_reference_segment(&x) {
                Ok(r) => r,
                Err(_) => return "ERR".into(),
            };
            let pay = zstd::decode_all(&frame[..]).unwrap_or_default();
            let lv = frame == fresh(&pay, if marker != 0 { lt } else { lp });
            let f2 = frame.clone();
            let out = outcome(move || decompress_segment_with_marker(&f2, marker));
            format!("m={} pay={} rt={} lv={} ne={}", marker, payload(&frame), rt(&out, &x), b2s(lv), b2s(!frame.is_empty()))
        }
        // delta / pack compression: mode c = compress_segment_configured(x, level), p = compress_segment_plain(x, level),
        // d = compress_segment(x) (level = the default the translator read)
        ["dlt", mode, level, x] => {
            let level: i32 = level.parse().unwrap();
            let x = unhex(x);
            let frame = match *mode {
                "c" => compress_segment_configured(&x, level),
                "p" => compress_segment_plain(&x, level),
                _ => compress_segment(&x),
            };
            let frame = match frame {
                Ok(f) => f,
                Err(_) => return "ERR".into(),
            };
            let lv = frame == fresh(&x, level);
            let (f2, f3) = (frame.clone(), frame.clone());
            let out = outcome(move || decompress_segment_with_marker(&f2, 0));
            let out2 = outcome(move || decompress_segment(&f3));
            format!("pay={} rt={} rs={} lv={} ne={}", payload(&frame), rt(&out, &x), rt(&out2, &x), b2s(lv), b2s(!frame.is_empty()))
        }
        // decompress_segment_with_marker on a genuine frame of an arbitrary payload, arbitrary marker
        ["mk", marker, level, pay] => {
            let marker: u8 = marker.parse().unwrap();
            let frame = compress_segment_pooled(&unhex(pay), level.parse().unwrap()).unwrap();
            outcome(move || decompress_segment_with_marker(&frame, marker))
        }
        // decompress_segment_with_marker / decompress_segment on raw bytes (empty short cut, not-a-frame)
        ["mkraw", marker, frame] => {
            let marker: u8 = marker.parse().unwrap();
            let frame = unhex(frame);
            let f2 = frame.clone();
            let a = outcome(move || decompress_segment_with_marker(&frame, marker));
            let b = outcome(move || decompress_segment(&f2));
            format!("{} {}", a, b)
        }
        // context reuse: the same input compressed after different histories on this thread's context
        ["hist", lt, lp, ld, x, h] => {
            let (lt, lp, ld): (i32, i32, i32) = (lt.parse().unwrap(), lp.parse().unwrap(), ld.parse().unwrap());
            let (x, h) = (unhex(x), unhex(h));
            let (f1, m1) = compress_reference_segment(&x).unwrap();
            for l in [lp, 1, lt, ld, 3, 9] {
                let f = compress_segment_pooled(&h, l).unwrap();
                assert_eq!(decompress_segment_pooled(&f).unwrap(), h);
            }
            let (f2, m2) = compress_reference_segment(&x).unwrap();
            let d1 = compress_segment(&x).unwrap();
            let _ = compress_reference_segment(&h).unwrap();
            let d2 = compress_segment(&x).unwrap();
            let d3 = compress_segment_configured(&x, ld).unwrap();
            let o1 = outcome(|| decompress_segment_with_marker(&f1, m1));
            let o2 = outcome(|| decompress_segment_with_marker(&f2, m2));
            let o3 = outcome(|| decompress_segment_with_marker(&d1, 0));
            let o4 = outcome(|| decompress_segment_with_marker(&d2, 0));
            let o5 = outcome(|| decompress_segment(&d3));
            format!("m={} m2={} rt={},{},{},{},{} same={},{},{},{}", m1, m2, rt(&o1, &x), rt(&o2, &x), rt(&o3, &x), rt(&o4, &x),
                rt(&o5, &x), b2s(f1 == f2), b2s(d1 == d2), b2s(d2 == d3), b2s(d1 == fresh(&x, ld)))
        }
        // exhaustive: every string of length `len` over the alphabet `alpha` that starts with `prefix`;
        // n = strings visited, ok = round trips that returned the input, h = sum of per-string hashes of the packed bytes
        ["exh", alpha, len, prefix] => {
            let (alpha, len, prefix) = (unhex(alpha), len.parse::<usize>().unwrap(), unhex(prefix));
            let free = len - prefix.len();
            let mut idx = vec![0usize; free];
            let mut s = prefix.clone();
            s.resize(len, alpha[0]);
            let (mut n, mut ok, mut h) = (0u64, 0u64, 0u64);
            const M: u64 = (1 << 50) - 1;
            loop {
                for (k, i) in idx.iter().enumerate() {
                    s[prefix.len() + k] = alpha[*i];
                }
                let p = bytes_to_tuples(&s);
                let mut hs = 7u64;
                for b in &p {
                    hs = (hs * 31 + *b as u64 + 1) & M;
                }
                h = (h + hs) & M;
                n += 1;
                if let Ok(u) = catch_unwind(|| tuples_to_bytes(&p)) {
                    if u == s {
                        ok += 1;
                    }
                }
                let mut k = free;
                loop {
                    if k == 0 {
                        return format!("n={} ok={} h={:x}", n, ok, h);
                    }
                    k -= 1;
                    idx[k] += 1;
                    if idx[k] < alpha.len() {
                        break;
                    }
                    idx[k] = 0;
                }
            }
        }
        // a really written archive: every part of every reference / delta stream, with what the real reader code
        // (decompress_segment_with_marker) makes of it. For parts stored raw (metadata 0) the frame the writer must have
        // rejected is recomputed with the real compress functions. Implementation-only (checks/c12.py extra_checks
        // feeds the records to the model's store_*_part / load_part).
        ["arch", path, level] => {
            let level: i32 = level.parse().unwrap();
            let mut a = ragc_common::Archive::new_reader();
            if let Err(e) = a.open(path) {
                return format!("ERR open {}", e);
            }
            let mut names: Vec<String> = a.get_stream_names().into_iter()
                .filter(|n| n.len() >= 3 && n.starts_with('x') && (n.ends_with('r') || n.ends_with('d'))).collect();
            names.sort();
            let mut recs = Vec::new();
            for name in names {
                let id = a.get_stream_id(&name).unwrap();
                let is_ref = name.ends_with('r');
                for p in 0..a.get_num_parts(id) {
                    let (data, meta) = match a.get_part_by_id(id, p) {
                        Ok(r) => r,
                        Err(e) => return format!("ERR part {} {} {}", name, p, e),
                    };
                    let (x, frame, marker) = if meta != 0 {
                        if data.is_empty() {
                            return format!("ERR empty compressed part {} {}", name, p);
                        }
                        let (body, marker) = (data[..data.len() - 1].to_vec(), data[data.len() - 1]);
                        let b2 = body.clone();
                        let x = outcome(move || decompress_segment_with_marker(&b2, marker));
                        (x, body, marker)
                    } else if is_ref {
                        let (f, m) = compress_reference_segment(&data).unwrap();
                        (hex(&data), f, m)
                    } else {
                        (hex(&data), compress_segment_configured(&data, level).unwrap(), 0)
                    };
                    recs.push(format!("{},{},{},{},{},{},{},{},{}", if is_ref { "R" } else { "D" }, name, p, meta, hex(&data), x,
                        hex(&frame), marker, payload(&frame)));
                }
            }
            if recs.is_empty() { "-".into() } else { recs.join(";") }
        }
        ["wref", ..] | ["wpack", ..] | ["lpart", ..] => "MODEL-ONLY".into(),
        _ => "HARNESS-ERROR bad case".into(),
    }
}

fn main() {
    runner::main_loop(run);
}
