//! C08 reader answers do not depend on query history or on other readers (implementation side).
//!
//! case  h <dir> <params> <op> <op> ... / <op> ... / ...
//!         the archive of case directory <dir> (FASTA files by lib/gen_samples.py) is created once (flock + marker
//!         out.agc.ok); every `/`-separated op sequence runs on ONE freshly opened Decompressor, each op under
//!         catch_unwind; every op is ALSO answered by a handle opened just for it (memoised per case line).
//! case  t <dir> <params> <seed> <nthreads> <nops> <parent-op> ...
//!         the parent handle runs <parent-op>..., then nthreads clones (clone_for_thread) run nops pseudo-random ops
//!         each in their own threads, concurrently with the parent running nops more, with verif_hooks::yield_point
//!         between ops; reported like `h`: one sequence per handle (parent first), fresh answers computed afterwards
//!         sequentially.
//! case  x <archive> <concrete op> ...   (experiments on a damaged file; prints X <op>~..~.. ...; no model side)
//! output  A <structure> | <op>~<cls>:<hash>~<cls>:<hash> ... / ...
//!         cls O/E/P (Ok / Err value / panic), hash = FNV-1a/64 of the canonical rendering of the answer;
//!         first pair = the history-carrying handle, second pair = the fresh handle.
//!         <structure> is the abstract archive the Coq model (ReaderState.v) is evaluated on (ocaml/c08/driver.ml).
//! ops (symbolic arguments are resolved against the archive; the resolved op is what gets printed):
//!   ls | lp:P | cs | lc:S | gs:S | gc:S:C | gr:S:C:a:b | gl:S:C | sd:S:C | sg:D | as | gst | rs:G
//!   S in S0 SL SB SX, C in C0 CL CX, P in P0 PX PE, D in D0 DL DD DR DX DY, G in GL GW GR GX, a b hex or `max`
#[path = "../mk.rs"]
mod mk;
#[path = "../runner.rs"]
mod runner;
#[path = "../util.rs"]
mod util;
use ragc_common::{stream_ref_name, Archive, CollectionV3, SegmentDesc, AGC_FILE_MAJOR, AGC_FILE_MINOR};
use ragc_core::segment_compression::decompress_segment_with_marker;
use ragc_core::{Decompressor, DecompressorConfig};
use std::collections::{BTreeMap, BTreeSet, HashMap};
use std::os::unix::io::AsRawFd;
use std::panic::{catch_unwind, AssertUnwindSafe};
use std::sync::{Arc, Mutex, OnceLock};
use util::*;

type Cat = Vec<(String, Vec<SegmentDesc>)>;

struct Abs {
    names: Vec<String>,
    batches: Vec<Vec<Cat>>,
    refs: Vec<(u32, u64, Vec<u8>, String)>,
    text: String,
}

fn cfg() -> DecompressorConfig {
    DecompressorConfig { verbosity: 0 }
}

fn fnv(b: &[u8]) -> u64 {
    let mut h: u64 = 0xcbf29ce484222325;
    for &x in b {
        h ^= x as u64;
        h = h.wrapping_mul(0x100000001b3);
    }
    h
}

fn desc_s(d: &SegmentDesc) -> String {
    format!("{}.{}.{}.{}", d.group_id, d.in_group_id, if d.is_rev_comp { 1 } else { 0 }, d.raw_length)
}

fn outcome_hex(r: std::thread::Result<anyhow::Result<Vec<u8>>>) -> String {
    match r {
        Ok(Ok(v)) => format!("O{}", hex(&v)),
        Ok(Err(_)) => "E".into(),
        Err(_) => "P".into(),
    }
}

fn build_abs(path: &str) -> anyhow::Result<Abs> {
    let d = Decompressor::open(path, cfg())?;
    let k = d.kmer_length;
    let streams = d.get_compression_stats();
    let names = d.list_samples();
    drop(d);
    let mut ar = Archive::new_reader();
    ar.open(path)?;
    let pid = ar.get_stream_id("params").ok_or_else(|| anyhow::anyhow!("no params stream"))?;
    let (pd, _) = ar.get_part_by_id(pid, 0)?;
    let seg_size = if pd.len() >= 16 { u32::from_le_bytes([pd[12], pd[13], pd[14], pd[15]]) } else { 60000 };
    let mut c = CollectionV3::new();
    c.set_config(seg_size, k, None);
    c.prepare_for_decompression(&ar)?;
    c.load_batch_sample_names(&mut ar)?;
    let nb = c.get_no_contig_batches(&ar)?;
    let mut bounds = Vec::new();
    for b in 0..nb {
        c.load_contig_batch(&mut ar, b)?;
        bounds.push(c.verif_samples_loaded());
    }
    let table = c.get_samples_list(false);
    if table != names {
        anyhow::bail!("sample table differs between Decompressor and CollectionV3");
    }
    let mut batches: Vec<Vec<Cat>> = Vec::new();
    let mut prev = 0usize;
    for &e in &bounds {
        batches.push((prev..e).map(|i| c.get_sample_desc(&table[i]).unwrap_or_default()).collect());
        prev = e;
    }
    // groups and (group, in_group_id) pairs in use, plus the probes of the D*/G* symbols
    let mut groups: BTreeSet<u32> = BTreeSet::new();
    let mut pairs: BTreeMap<(u32, u32), u32> = BTreeMap::new();
    for b in &batches {
        for s in b {
            for (_, ds) in s {
                for x in ds {
                    groups.insert(x.group_id);
                    pairs.insert((x.group_id, x.in_group_id), x.raw_length);
                }
            }
        }
    }
    groups.insert(100000);
    for g in 0..20u32 {
        groups.insert(g);
    }
    let ver = AGC_FILE_MAJOR * 1000 + AGC_FILE_MINOR;
    let mut refs = Vec::new();
    for &g in &groups {
        if let Some(id) = ar.get_stream_id(&stream_ref_name(ver, g)) {
            if ar.get_num_parts(id) == 0 {
                continue;
            }
            let (data, meta) = ar.get_part_by_id(id, 0)?;
            let dz = if meta != 0 && !data.is_empty() {
                let body = data[..data.len() - 1].to_vec();
                let marker = data[data.len() - 1];
                outcome_hex(catch_unwind(AssertUnwindSafe(|| decompress_segment_with_marker(&body, marker))))
            } else {
                "N".to_string()
            };
            refs.push((g, meta, data, dz));
        }
    }
    pairs.insert((100000, 0), 10);
    if let Some(r) = refs.iter().find(|r| r.0 >= 16) {
        pairs.insert((r.0, 100000), 10);
    }
    if let Some(g) = groups.iter().find(|&&g| g < 16 && pairs.keys().any(|p| p.0 == g)) {
        pairs.insert((*g, 100000), 10);
    }
    // what a handle that was asked nothing else says about every segment that is not an LZ reference
    let mut segs = Vec::new();
    let mut cur: Option<(u32, Decompressor)> = None;
    for (&(g, i), &len) in &pairs {
        if g >= 16 && i == 0 {
            continue;
        }
        if cur.as_ref().map(|c| c.0) != Some(g) {
            cur = Some((g, Decompressor::open(path, cfg())?));
        }
        let h = &mut cur.as_mut().unwrap().1;
        let dsc = SegmentDesc::new(g, i, false, len);
        let r = outcome_hex(catch_unwind(AssertUnwindSafe(|| h.get_segment_data_by_desc(&dsc))));
        if r == "P" {
            cur = None;
        }
        segs.push(format!("{}.{}.{}", g, i, r));
    }
    let bt: Vec<String> = batches
        .iter()
        .map(|b| {
            b.iter()
                .map(|s| {
                    if s.is_empty() {
                        "-".to_string()
                    } else {
                        s.iter()
                            .map(|(n, ds)| {
                                format!("{}:{}", hex(n.as_bytes()), ds.iter().map(desc_s).collect::<Vec<_>>().join("_"))
                            })
                            .collect::<Vec<_>>()
                            .join("+")
                    }
                })
                .collect::<Vec<_>>()
                .join(",")
        })
        .collect();
    let text = format!(
        "k={} names={} batches={} refs={} segs={} streams={}",
        k,
        names.iter().map(|n| hex(n.as_bytes())).collect::<Vec<_>>().join(","),
        bt.join(";"),
        refs.iter().map(|(g, m, d, z)| format!("{}.{}.{}.{}", g, m, hex(d), z)).collect::<Vec<_>>().join(","),
        segs.join(","),
        streams.iter().map(|(n, a, b, c)| format!("{}.{}.{}.{}", hex(n.as_bytes()), a, b, c)).collect::<Vec<_>>().join(",")
    );
    Ok(Abs { names, batches, refs, text })
}

fn abs_of(path: &str) -> Result<Arc<Abs>, String> {
    static CACHE: OnceLock<Mutex<HashMap<String, Arc<Abs>>>> = OnceLock::new();
    let m = CACHE.get_or_init(|| Mutex::new(HashMap::new()));
    if let Some(a) = m.lock().unwrap().get(path) {
        return Ok(a.clone());
    }
    let a = Arc::new(build_abs(path).map_err(|e| format!("{:#}", e).replace('\n', " "))?);
    m.lock().unwrap().insert(path.to_string(), a.clone());
    Ok(a)
}

fn ensure_archive(dir: &str, params: &str) -> Result<String, String> {
    let out = format!("{}/out.agc", dir);
    let ok = format!("{}/out.agc.ok", dir);
    if std::path::Path::new(&ok).exists() {
        return Ok(out);
    }
    let lock = std::fs::OpenOptions::new()
        .create(true)
        .write(true)
        .open(format!("{}/lock", dir))
        .map_err(|e| format!("lock: {}", e))?;
    unsafe {
        libc::flock(lock.as_raw_fd(), libc::LOCK_EX);
    }
    let mut res = Ok(out.clone());
    if !std::path::Path::new(&ok).exists() {
        let _ = std::fs::remove_file(&out);
        let p = mk::Params::parse(params);
        let inputs = mk::case_inputs(dir);
        match catch_unwind(AssertUnwindSafe(|| mk::create(&out, &inputs, &p))) {
            Ok(Ok(())) => {
                std::fs::write(&ok, b"ok").map_err(|e| e.to_string())?;
            }
            Ok(Err(e)) => res = Err(format!("CREATE-ERR {}", format!("{:#}", e).replace('\n', " "))),
            Err(e) => res = Err(format!("CREATE-PANIC {}", runner::panic_msg(&e).replace('\n', " "))),
        }
    }
    unsafe {
        libc::flock(lock.as_raw_fd(), libc::LOCK_UN);
    }
    res
}

#[derive(Clone, Debug)]
enum Op {
    Ls,
    Lp(Vec<u8>),
    Cs,
    Lc(Vec<u8>),
    Gs(Vec<u8>),
    Gc(Vec<u8>, Vec<u8>),
    Gr(Vec<u8>, Vec<u8>, usize, usize),
    Gl(Vec<u8>, Vec<u8>),
    Sd(Vec<u8>, Vec<u8>),
    Sg(SegmentDesc),
    As,
    Gst,
    Rs(u32),
}

fn op_text(o: &Op) -> String {
    match o {
        Op::Ls => "ls".into(),
        Op::Lp(p) => format!("lp:{}", hex(p)),
        Op::Cs => "cs".into(),
        Op::Lc(s) => format!("lc:{}", hex(s)),
        Op::Gs(s) => format!("gs:{}", hex(s)),
        Op::Gc(s, c) => format!("gc:{}:{}", hex(s), hex(c)),
        Op::Gr(s, c, a, b) => format!("gr:{}:{}:{:x}:{:x}", hex(s), hex(c), a, b),
        Op::Gl(s, c) => format!("gl:{}:{}", hex(s), hex(c)),
        Op::Sd(s, c) => format!("sd:{}:{}", hex(s), hex(c)),
        Op::Sg(d) => format!("sg:{}", desc_s(d)),
        Op::As => "as".into(),
        Op::Gst => "gst".into(),
        Op::Rs(g) => format!("rs:{}", g),
    }
}

fn flat(a: &Abs) -> Vec<&Cat> {
    a.batches.iter().flat_map(|b| b.iter()).collect()
}

fn sample_arg(a: &Abs, t: &str) -> Vec<u8> {
    let n = a.names.len();
    match t {
        "S0" if n > 0 => a.names[0].as_bytes().to_vec(),
        "SL" if n > 0 => a.names[n - 1].as_bytes().to_vec(),
        "SB" if n > 0 => a.names[if n > 50 { 50 } else { n / 2 }].as_bytes().to_vec(),
        "S0" | "SL" | "SB" | "SX" => b"nosuch".to_vec(),
        _ => unhex(t),
    }
}

fn contig_arg(a: &Abs, s: &[u8], t: &str) -> Vec<u8> {
    let fl = flat(a);
    let idx = a.names.iter().position(|n| n.as_bytes() == s);
    let cat: Option<&Cat> = idx
        .and_then(|i| fl.get(i).copied())
        .filter(|c| !c.is_empty())
        .or_else(|| fl.iter().copied().find(|c| !c.is_empty()));
    match (t, cat) {
        ("C0", Some(c)) => c[0].0.as_bytes().to_vec(),
        ("CL", Some(c)) => c[c.len() - 1].0.as_bytes().to_vec(),
        ("C0", None) | ("CL", None) | ("CX", _) => b"nosuchctg".to_vec(),
        _ => unhex(t),
    }
}

fn num_arg(t: &str) -> usize {
    if t == "max" {
        usize::MAX
    } else {
        usize::from_str_radix(t, 16).unwrap()
    }
}

fn group_arg(a: &Abs, t: &str) -> u32 {
    let fl = flat(a);
    match t {
        "GL" => a.refs.iter().find(|r| r.0 >= 16 && r.1 != 0).map(|r| r.0).unwrap_or(100000),
        "GW" => a.refs.iter().find(|r| r.0 >= 16 && r.1 == 0).map(|r| r.0).unwrap_or(100000),
        "GR" => fl
            .iter()
            .flat_map(|c| c.iter())
            .flat_map(|x| x.1.iter())
            .find(|d| d.group_id < 16)
            .map(|d| d.group_id)
            .unwrap_or(100000),
        "GX" => 100000,
        _ => t.parse().unwrap(),
    }
}

fn desc_arg(a: &Abs, t: &str) -> SegmentDesc {
    let fl = flat(a);
    let all: Vec<SegmentDesc> = fl.iter().flat_map(|c| c.iter()).flat_map(|x| x.1.iter().copied()).collect();
    let d0 = all.first().copied().unwrap_or(SegmentDesc::new(100000, 0, false, 10));
    match t {
        "D0" => d0,
        "DL" => all.last().copied().unwrap_or(d0),
        "DD" => all.iter().copied().find(|d| d.group_id >= 16 && d.in_group_id > 0).unwrap_or(d0),
        "DR" => all.iter().copied().find(|d| d.group_id < 16).unwrap_or(d0),
        // same group (= same delta stream) as DD but in a later pack: in-group id above the pack cardinality
        "DP" => {
            let dd = all.iter().copied().find(|d| d.group_id >= 16 && d.in_group_id > 0).unwrap_or(d0);
            all.iter().copied().find(|d| d.group_id == dd.group_id && d.in_group_id > 50).unwrap_or(dd)
        }
        "DX" => SegmentDesc::new(100000, 0, false, 10),
        "DY" => SegmentDesc::new(a.refs.iter().find(|r| r.0 >= 16).map(|r| r.0).unwrap_or(100000), 100000, false, 10),
        _ => {
            let f: Vec<&str> = t.split('.').collect();
            SegmentDesc::new(f[0].parse().unwrap(), f[1].parse().unwrap(), f[2] == "1", f[3].parse().unwrap())
        }
    }
}

fn resolve(a: &Abs, tok: &str) -> Op {
    let f: Vec<&str> = tok.split(':').collect();
    match f.as_slice() {
        ["ls"] => Op::Ls,
        ["cs"] => Op::Cs,
        ["as"] => Op::As,
        ["gst"] => Op::Gst,
        ["lp", p] => Op::Lp(match *p {
            "P0" => a.names.first().map(|n| n.as_bytes()[..n.len().min(2)].to_vec()).unwrap_or_default(),
            "PX" => b"zz".to_vec(),
            "PE" => vec![],
            _ => unhex(p),
        }),
        ["lc", s] => Op::Lc(sample_arg(a, s)),
        ["gs", s] => Op::Gs(sample_arg(a, s)),
        ["gc", s, c] => {
            let s = sample_arg(a, s);
            let c = contig_arg(a, &s, c);
            Op::Gc(s, c)
        }
        ["gl", s, c] => {
            let s = sample_arg(a, s);
            let c = contig_arg(a, &s, c);
            Op::Gl(s, c)
        }
        ["sd", s, c] => {
            let s = sample_arg(a, s);
            let c = contig_arg(a, &s, c);
            Op::Sd(s, c)
        }
        ["gr", s, c, x, y] => {
            let s = sample_arg(a, s);
            let c = contig_arg(a, &s, c);
            Op::Gr(s, c, num_arg(x), num_arg(y))
        }
        ["sg", d] => Op::Sg(desc_arg(a, d)),
        ["rs", g] => Op::Rs(group_arg(a, g)),
        _ => panic!("bad op {}", tok),
    }
}

fn st(b: &[u8]) -> String {
    String::from_utf8_lossy(b).to_string()
}

fn names_r(v: &[String]) -> String {
    format!("N{}", v.iter().map(|n| hex(n.as_bytes())).collect::<Vec<_>>().join(","))
}

/// canonical rendering of the answer (the same text ocaml/c08/driver.ml builds from the model's value)
fn answer(d: &mut Decompressor, op: &Op) -> anyhow::Result<String> {
    Ok(match op {
        Op::Ls => names_r(&d.list_samples()),
        Op::Lp(p) => names_r(&d.list_samples_with_prefix(&st(p))),
        Op::Cs => format!(
            "Z{}",
            d.get_compression_stats()
                .iter()
                .map(|(n, a, b, c)| format!("{}.{}.{}.{}", hex(n.as_bytes()), a, b, c))
                .collect::<Vec<_>>()
                .join(",")
        ),
        Op::Lc(s) => names_r(&d.list_contigs(&st(s))?),
        Op::Gs(s) => format!(
            "M{}",
            d.get_sample(&st(s))?.iter().map(|(n, q)| format!("{}:{}", hex(n.as_bytes()), hex(q))).collect::<Vec<_>>().join(",")
        ),
        Op::Gc(s, c) => format!("Q{}", hex(&d.get_contig(&st(s), &st(c))?)),
        Op::Gr(s, c, a, b) => format!("Q{}", hex(&d.get_contig_range(&st(s), &st(c), *a, *b)?)),
        Op::Gl(s, c) => format!("U{}", d.get_contig_length(&st(s), &st(c))?),
        Op::Sd(s, c) => {
            format!("D{}", d.get_contig_segments_desc(&st(s), &st(c))?.iter().map(desc_s).collect::<Vec<_>>().join(","))
        }
        Op::Sg(x) => format!("Q{}", hex(&d.get_segment_data_by_desc(x)?)),
        Op::As => format!(
            "L{}",
            d.get_all_segments()?
                .iter()
                .map(|(s, c, ds)| {
                    format!("{}:{}:{}", hex(s.as_bytes()), hex(c.as_bytes()), ds.iter().map(desc_s).collect::<Vec<_>>().join("+"))
                })
                .collect::<Vec<_>>()
                .join(",")
        ),
        Op::Gst => format!(
            "T{}",
            d.get_group_statistics()?.iter().map(|(g, t, r, x)| format!("{}.{}.{}.{}", g, t, r, x)).collect::<Vec<_>>().join(",")
        ),
        Op::Rs(g) => format!("Q{}", hex(&d.get_reference_segment(*g)?)),
    })
}

fn exec(d: &mut Decompressor, op: &Op) -> String {
    match catch_unwind(AssertUnwindSafe(|| answer(d, op))) {
        Ok(Ok(s)) => {
            if std::env::var("VERIF_C08_RENDER").is_ok() {
                eprintln!("{} -> {}", op_text(op), s);
            }
            format!("O:{:016x}", fnv(s.as_bytes()))
        }
        Ok(Err(_)) => "E:-".into(),
        Err(_) => "P:-".into(),
    }
}

fn fresh_answer(path: &str, op: &Op, memo: &mut HashMap<String, String>) -> String {
    let key = op_text(op);
    if let Some(v) = memo.get(&key) {
        return v.clone();
    }
    let v = match Decompressor::open(path, cfg()) {
        Ok(mut f) => exec(&mut f, op),
        Err(_) => "X:-".into(),
    };
    memo.insert(key, v.clone());
    v
}

const ALPHABET: &[&str] = &[
    "ls", "lp:P0", "lp:PX", "cs", "lc:S0", "lc:SL", "lc:SB", "lc:SX", "gs:S0", "gs:SL", "gs:SB", "gs:SX", "gc:S0:C0",
    "gc:SL:CL", "gc:SB:C0", "gc:S0:CX", "gc:SX:C0", "gr:S0:C0:5:40", "gr:SL:CL:0:max", "gr:SB:C0:30:31", "gr:SX:C0:0:9",
    "gr:S0:CX:0:9", "gr:S0:C0:9:9", "gl:S0:C0", "gl:SL:CL", "gl:SX:CX", "gl:S0:CX", "sd:S0:C0", "sd:SL:CL", "sd:SX:C0",
    "sg:D0", "sg:DL", "sg:DD", "sg:DR", "sg:DX", "sg:DY", "as", "gst", "rs:GL", "rs:GW", "rs:GR", "rs:GX",
];

fn xs(x: &mut u64) -> u64 {
    *x ^= *x << 13;
    *x ^= *x >> 7;
    *x ^= *x << 17;
    *x
}

fn run(t: &[&str]) -> String {
    match t {
        ["h", dir, params, rest @ ..] => {
            let path = match ensure_archive(dir, params) {
                Ok(p) => p,
                Err(e) => return e,
            };
            let abs = match abs_of(&path) {
                Ok(a) => a,
                Err(e) => return format!("ABS-ERR {}", e),
            };
            let mut memo = HashMap::new();
            let mut seqs = Vec::new();
            for seq in rest.split(|x| *x == "/") {
                let mut d = match Decompressor::open(&path, cfg()) {
                    Ok(d) => d,
                    Err(e) => return format!("OPEN-ERR {:#}", e),
                };
                let mut out = Vec::new();
                for tok in seq {
                    let op = resolve(&abs, tok);
                    let same = exec(&mut d, &op);
                    let fresh = fresh_answer(&path, &op, &mut memo);
                    out.push(format!("{}~{}~{}", op_text(&op), same, fresh));
                }
                seqs.push(out.join(" "));
            }
            format!("A {} | {}", abs.text, seqs.join(" / "))
        }
        ["t", dir, params, seed, nthreads, nops, parent_ops @ ..] => {
            let path = match ensure_archive(dir, params) {
                Ok(p) => p,
                Err(e) => return e,
            };
            let abs = match abs_of(&path) {
                Ok(a) => a,
                Err(e) => return format!("ABS-ERR {}", e),
            };
            let seed: u64 = seed.parse().unwrap();
            let nthreads: usize = nthreads.parse().unwrap();
            let nops: usize = nops.parse().unwrap();
            let mut parent = match Decompressor::open(&path, cfg()) {
                Ok(d) => d,
                Err(e) => return format!("OPEN-ERR {:#}", e),
            };
            let mut pseq: Vec<(Op, String)> = Vec::new();
            for tok in parent_ops {
                let op = resolve(&abs, tok);
                let r = exec(&mut parent, &op);
                pseq.push((op, r));
            }
            ragc_core::verif_hooks::set_scheduler(seed | 1);
            let mut handles = Vec::new();
            for i in 0..nthreads {
                // clones are taken from a parent that already has a history (tables loaded, references cached)
                let mut clone = match parent.clone_for_thread() {
                    Ok(c) => c,
                    Err(e) => return format!("CLONE-ERR {:#}", e),
                };
                let abs2 = abs.clone();
                handles.push(std::thread::spawn(move || {
                    ragc_core::verif_hooks::set_tid(i as u64 + 1);
                    let mut x = seed.wrapping_mul(0x9E3779B97F4A7C15) ^ ((i as u64 + 1) << 20) | 1;
                    let mut out: Vec<(Op, String)> = Vec::new();
                    for j in 0..nops {
                        let tok = ALPHABET[(xs(&mut x) % ALPHABET.len() as u64) as usize];
                        let op = resolve(&abs2, tok);
                        ragc_core::verif_hooks::yield_point(j as u32);
                        let r = exec(&mut clone, &op);
                        out.push((op, r));
                    }
                    out
                }));
            }
            ragc_core::verif_hooks::set_tid(0);
            let mut x = seed.wrapping_mul(0xD1B54A32D192ED03) | 1;
            for j in 0..nops {
                let tok = ALPHABET[(xs(&mut x) % ALPHABET.len() as u64) as usize];
                let op = resolve(&abs, tok);
                ragc_core::verif_hooks::yield_point(1000 + j as u32);
                let r = exec(&mut parent, &op);
                pseq.push((op, r));
            }
            let mut all = vec![pseq];
            for h in handles {
                match h.join() {
                    Ok(v) => all.push(v),
                    Err(_) => {
                        ragc_core::verif_hooks::set_scheduler(0);
                        return "THREAD-PANIC".into();
                    }
                }
            }
            ragc_core::verif_hooks::set_scheduler(0);
            let mut memo = HashMap::new();
            let seqs: Vec<String> = all
                .iter()
                .map(|s| {
                    s.iter()
                        .map(|(op, r)| format!("{}~{}~{}", op_text(op), r, fresh_answer(&path, op, &mut memo)))
                        .collect::<Vec<_>>()
                        .join(" ")
                })
                .collect();
            format!("A {} | {}", abs.text, seqs.join(" / "))
        }
        // experiments on a given (possibly damaged) archive file: concrete ops only, no structure, not modelled
        ["x", path, rest @ ..] => {
            let abs = Abs { names: vec![], batches: vec![], refs: vec![], text: String::new() };
            let mut memo = HashMap::new();
            let mut d = match Decompressor::open(path, cfg()) {
                Ok(d) => d,
                Err(e) => return format!("OPEN-ERR {:#}", e),
            };
            let mut out = Vec::new();
            for tok in rest {
                let op = resolve(&abs, tok);
                let same = exec(&mut d, &op);
                let fresh = fresh_answer(path, &op, &mut memo);
                out.push(format!("{}~{}~{}", op_text(&op), same, fresh));
            }
            format!("X {}", out.join(" "))
        }
        _ => "HARNESS-ERROR bad case".into(),
    }
}

fn main() {
    // anyhow captures a backtrace per error value when RUST_BACKTRACE is set: ~5 ms per Err answer
    if std::env::var("VERIF_PANIC_VERBOSE").is_err() {
        std::env::set_var("RUST_LIB_BACKTRACE", "0");
    }
    runner::main_loop(run);
}
