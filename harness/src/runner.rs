//! runner.rs - shared main loop of every per-property harness binary (src/bin/cXX.rs):
//! `cXX <casefile>` runs each case line against the real ragc code (path dependencies on /repo, rebuilt
//! from its working tree) under catch_unwind and prints one canonical result line per case - the same
//! format the extracted Coq model's driver prints.
#![allow(dead_code)]
use std::io::{BufRead, Write};
use std::panic;

pub fn panic_msg(e: &Box<dyn std::any::Any + Send>) -> String {
    if let Some(s) = e.downcast_ref::<String>() {
        s.clone()
    } else if let Some(s) = e.downcast_ref::<&str>() {
        s.to_string()
    } else {
        "?".into()
    }
}

/// glibc malloc tuning: the level-18/19 zstd contexts of store_contig_batch allocate ~100 MB tables per
/// archive; with the default thresholds they are mmap'ed and page-faulted afresh every time (0.5-15 s per
/// create under load). Keeping them on the heap brings a small create to well under a second.
pub fn tune_malloc() {
    unsafe {
        libc::mallopt(libc::M_MMAP_THRESHOLD, 1 << 30);
        libc::mallopt(libc::M_TRIM_THRESHOLD, i32::MAX);
    }
}

pub fn main_loop(f: fn(&[&str]) -> String) {
    tune_malloc();
    let args: Vec<String> = std::env::args().collect();
    if args.len() < 2 {
        eprintln!("usage: {} <casefile>", args[0]);
        std::process::exit(2);
    }
    // panics are outcomes, not crashes: keep the default hook quiet
    if std::env::var("VERIF_PANIC_VERBOSE").is_err() {
        panic::set_hook(Box::new(|_| {}));
    }
    let file = std::fs::File::open(&args[1]).expect("open casefile");
    let out = std::io::stdout();
    let mut out = std::io::BufWriter::new(out.lock());
    for line in std::io::BufReader::new(file).lines() {
        let line = line.unwrap();
        if line.is_empty() || line.starts_with('#') {
            continue;
        }
        let toks: Vec<&str> = line.split_whitespace().collect();
        let r = panic::catch_unwind(|| f(&toks));
        match r {
            Ok(s) => writeln!(out, "{}", s).unwrap(),
            Err(e) => writeln!(out, "PANIC {}", panic_msg(&e).replace('\n', " ")).unwrap(),
        }
        out.flush().unwrap();
    }
}
