#![allow(dead_code)]
pub fn unhex(s: &str) -> Vec<u8> {
    if s == "-" {
        return vec![];
    }
    (0..s.len() / 2).map(|i| u8::from_str_radix(&s[2 * i..2 * i + 2], 16).unwrap()).collect()
}
pub fn hex(b: &[u8]) -> String {
    if b.is_empty() {
        return "-".into();
    }
    let mut s = String::with_capacity(b.len() * 2);
    for x in b {
        s.push_str(&format!("{:02x}", x));
    }
    s
}
pub fn b2s(b: bool) -> &'static str {
    if b { "1" } else { "0" }
}
